package gse

// Schedule exploration ("sched mode", switched on by vn.SchedStart()).
//
// In this mode the interleaving of the interpreted goroutines is a decision vector like every
// other branch: before each *visible* operation (channel send / receive / select / close, the
// quiescence wait) the running goroutine parks with a description of the operation, the set of
// enabled transitions of all parked goroutines is computed, and one of them is chosen by a
// forked decision (freeBranch chain). The code between two visible operations runs atomically
// (it touches only goroutine-local state unless the program has a data race, which the
// happens-before monitor in race.go reports).
//
// Reductions (all sound for the visible-operation semantics):
//   - a goroutine whose next step is purely local (just spawned, or resumed after an unbuffered
//     rendez-vous) runs first, without a fork: its step commutes with everything;
//   - sleep sets (Godefroid): after a transition t has been explored at a node, t is put to
//     sleep in the sibling branches until a transition dependent on it is taken; a node whose
//     enabled transitions are all asleep ends the path as PRUNED (an equivalent interleaving
//     is explored elsewhere);
//   - two transitions are dependent iff they involve a common goroutine or touch a common
//     channel in a conflicting way (anything but two peeks; on a done-only channel, i.e. a
//     context's Done channel, only close conflicts).
//
// Channels marked as sinks (vn.ChanSink: the heartbeat channel) accept every send immediately
// and invisibly. Atomic operations are invisible (in Grits they touch debug counters only).

import (
	"fmt"
	"go/types"
	"os"
	"sort"
	"strings"

	"golang.org/x/tools/go/ssa"
)

var traceTrans = os.Getenv("GSE_OUTCOMES_FULL") != ""

var noSleepSets = os.Getenv("GSE_NOSLEEP") != ""

type schedKind int

const (
	opLocal schedKind = iota
	opComm            // send / recv / select
	opClose
	opQuiesce
	opMutex // Lock / RLock: enabled while the mutex is free
	opWait  // WaitGroup.Wait: enabled when the counter is zero
)

type schedCase struct {
	ch   *Chan
	send bool
	v    Value
}

type schedOp struct {
	kind       schedKind
	cases      []schedCase
	hasDefault bool
	what       string
	mu         Ptr // opMutex / opWait: the mutex or wait group
	muWrite    bool
}

type schedResult struct {
	idx    int // chosen case; -1 = default
	v      Value
	ok     bool // receive: value came from a send (false: closed channel)
	closed bool // send on a closed channel: the sender must panic
}

type trans struct {
	g, k  int // goroutine, case index (-1 default, -2 close, -3 quiesce)
	p, pk int // rendez-vous partner and its case index (p = -1: none); g is the sender
}

func (t trans) String() string { return fmt.Sprintf("g%d.%d/g%d.%d", t.g, t.k, t.p, t.pk) }

type access struct {
	ch   *Chan
	kind int // 0 peek (default of a select), 1 send/recv, 2 close, 3 announce (a goroutine parked at an operation on the channel)
	mu   Ptr // mutex / wait group instead of a channel
}

type sleeper struct {
	t   trans
	gs  [2]int
	acc []access
	// tailKnown: the transition was executed on the recording path and what its tail announced
	// is part of acc. For a transition that was not executed the announcements are unknown, and it
	// is treated as dependent on every transition that peeks (takes a default branch).
	tailKnown bool
}

func (s sleeper) peeks() bool {
	for _, a := range s.acc {
		if a.kind == 0 && a.ch != nil && !a.ch.DoneOnly {
			return true
		}
	}
	return false
}

// gInfo is the snapshot of one goroutine taken at quiescence.
type gInfo struct {
	id    int
	done  bool
	op    string // "send", "recv", "select", "local", "quiesce", "close", ""
	stack string // function names, innermost first
}

func (m *Machine) schedOn() bool { return m.path != nil && m.path.sched }

// ---- enumeration of enabled transitions ----

func (m *Machine) enabledTrans() (local *goroutine, cands []trans, quiesce *goroutine) {
	ready := map[int]bool{}
	for _, g := range m.gor {
		if g.done || g.pending == nil || !g.parked {
			continue
		}
		op := g.pending
		switch op.kind {
		case opLocal:
			if local == nil {
				local = g
			}
			continue
		case opQuiesce:
			if quiesce == nil {
				quiesce = g
			}
			continue
		case opClose:
			cands = append(cands, trans{g.id, -2, -1, -1})
			continue
		case opMutex:
			st := m.syncSt()
			if (op.muWrite && st.locked[op.mu] == 0) || (!op.muWrite && st.locked[op.mu] >= 0) {
				cands = append(cands, trans{g.id, -4, -1, -1})
			}
			continue
		case opWait:
			if m.syncSt().wg[op.mu] <= 0 {
				cands = append(cands, trans{g.id, -4, -1, -1})
			}
			continue
		}
		for k, c := range op.cases {
			if c.ch == nil {
				continue
			}
			if c.send {
				switch {
				case c.ch.Closed:
					cands = append(cands, trans{g.id, k, -1, -1})
					ready[g.id] = true
				case c.ch.Cap > 0:
					if len(c.ch.Buf) < c.ch.Cap {
						cands = append(cands, trans{g.id, k, -1, -1})
						ready[g.id] = true
					}
				default:
					for _, p := range m.gor {
						if p == g || p.done || p.pending == nil || !p.parked || p.pending.kind != opComm {
							continue
						}
						for pk, pc := range p.pending.cases {
							if pc.ch == c.ch && !pc.send {
								cands = append(cands, trans{g.id, k, p.id, pk})
								ready[g.id] = true
								ready[p.id] = true
							}
						}
					}
				}
			} else {
				if len(c.ch.Buf) > 0 || c.ch.Closed {
					cands = append(cands, trans{g.id, k, -1, -1})
					ready[g.id] = true
				}
			}
		}
	}
	for _, g := range m.gor {
		if g.done || g.pending == nil || !g.parked || g.pending.kind != opComm {
			continue
		}
		if g.pending.hasDefault && !ready[g.id] {
			cands = append(cands, trans{g.id, -1, -1, -1})
		}
	}
	sort.Slice(cands, func(i, j int) bool {
		a, b := cands[i], cands[j]
		if a.g != b.g {
			return a.g < b.g
		}
		if a.k != b.k {
			return a.k < b.k
		}
		if a.p != b.p {
			return a.p < b.p
		}
		return a.pk < b.pk
	})
	return
}

func (m *Machine) accessesOf(t trans) sleeper {
	s := sleeper{t: t, gs: [2]int{t.g, t.p}}
	g := m.gor[t.g]
	switch t.k {
	case -5:
		// local step: no access of its own (its announcements are added when its tail has run)
	case -4:
		s.acc = append(s.acc, access{nil, 1, g.pending.mu})
	case -2:
		s.acc = append(s.acc, access{ch: g.pending.cases[0].ch, kind: 2})
	case -1:
		for _, c := range g.pending.cases {
			if c.ch != nil {
				s.acc = append(s.acc, access{ch: c.ch, kind: 0})
			}
		}
	default:
		ch := g.pending.cases[t.k].ch
		if ch.Unordered && g.pending.cases[t.k].send {
			s.gs = [2]int{t.g, -1}
			return s
		}
		s.acc = append(s.acc, access{ch: ch, kind: 1})
	}
	return s
}

func dependent(a, b sleeper) bool {
	if !noDPOR && ((!a.tailKnown && a.gs[0] >= 0 && b.peeks()) || (!b.tailKnown && b.gs[0] >= 0 && a.peeks())) {
		return true // (experimental DPOR only)
	}
	for _, x := range a.gs {
		for _, y := range b.gs {
			if x >= 0 && x == y {
				return true
			}
		}
	}
	for _, x := range a.acc {
		for _, y := range b.acc {
			if x.ch != y.ch || x.mu != y.mu {
				continue
			}
			if x.ch == nil {
				return true // the same mutex / wait group
			}
			if x.ch.DoneOnly {
				if x.kind == 2 || y.kind == 2 {
					return true
				}
				continue
			}
			if conflictKinds(x.kind, y.kind) {
				return true
			}
		}
	}
	return false
}

// conflictKinds: do two accesses of these kinds to one channel conflict? A peek (the default
// branch of a select: "no case is ready") conflicts with everything that changes readiness,
// including the mere arrival of a partner (announce); an announcement conflicts with nothing else.
func conflictKinds(a, b int) bool {
	if a > b {
		a, b = b, a
	}
	switch {
	case a == 0 && b == 0:
		return false
	case a == 3 || b == 3:
		return a == 0
	}
	return true
}

// announcements: the channels at which goroutines parked since the last transition was applied.
// They belong to the accesses of that transition (its tail made them park there).
func (m *Machine) announcements() []access {
	var out []access
	for _, g := range m.gor {
		if g.done || !g.parked || g.pending == nil || g.parkSeq != m.path.transSeq || g.pending.kind != opComm {
			continue
		}
		kind := 3
		if g.pending.hasDefault {
			// arriving at a select with a default branch reads the readiness of its channels:
			// the branch taken depends on who is parked there already
			kind = 0
		}
		for _, c := range g.pending.cases {
			if c.ch != nil && !c.ch.Sink {
				out = append(out, access{ch: c.ch, kind: kind})
			}
		}
	}
	return out
}

// settlePrevious completes the bookkeeping of the previously applied transition once its tail has
// run: its announcements wake sleeping default-transitions that peek at those channels, and (DPOR)
// are checked for races and recorded.
func (m *Machine) settlePrevious() {
	p := m.path
	if p.settled == p.transSeq {
		return
	}
	p.settled = p.transSeq
	ann := m.announcements()
	if m.dporOn() && len(p.trace) > 0 {
		m.dporTailKnown(ann)
	}
	if len(ann) == 0 {
		return
	}
	as := sleeper{gs: [2]int{-1, -1}, acc: ann, tailKnown: true}
	var ns []sleeper
	for _, s := range p.sleep {
		if !dependent(s, as) {
			ns = append(ns, s)
		}
	}
	p.sleep = ns
	if m.dporOn() && len(p.trace) > 0 {
		m.dporAnnounce(ann)
	}
}

// chooseN is an n-ary forked decision (unary chain of free branches).
func (m *Machine) chooseN(n int) int {
	for i := 0; i < n-1; i++ {
		if m.freeBranch() {
			return i
		}
	}
	return n - 1
}

// pickTransition chooses the next transition. It returns the goroutine that gets the baton.
// ok=false: nothing can run (the caller decides what that means).
func (m *Machine) pickTransition() (next *goroutine, ok bool) {
	p := m.path
	local, cands, quiesce := m.enabledTrans()
	if local != nil && m.dporOn() {
		// under DPOR a local step is an ordinary transition that is tried first: what its tail
		// announces (goroutines it spawns and parks) is only known afterwards, and may race with
		// a default branch that is enabled now
		cands = append([]trans{{local.id, -5, -1, -1}}, cands...)
		local = nil
	}
	if local == nil {
		m.settlePrevious()
	}
	if local != nil {
		local.pending = nil
		local.parked = false
		return local, true
	}
	if len(cands) == 0 {
		if quiesce != nil {
			if m.dporOn() {
				nd := &nodeRec{key: nodeKey(p.decisions, len(p.nodes)), decOff: len(p.decisions), sleepAt: len(p.sleepAtOwn)}
				p.nodes = append(p.nodes, nd)
				p.sleepAtOwn = append(p.sleepAtOwn, nil)
				m.dporStep(nd, len(p.nodes)-1, trans{quiesce.id, -3, -1, -1}, sleeper{gs: [2]int{quiesce.id, -1}}, true)
			}
			p.sleep = nil
			quiesce.pending = nil
			quiesce.parked = false
			p.schedSteps++
			return quiesce, true
		}
		return nil, false
	}
	var awake []trans
	for _, t := range cands {
		asleep := false
		for _, s := range p.sleep {
			if s.t == t {
				asleep = true
				break
			}
		}
		if !asleep {
			awake = append(awake, t)
		}
	}
	if len(awake) == 0 {
		panic(pathEnd{OutPruned, "sleep-set blocked"})
	}
	if m.dporOn() {
		return m.pickDPOR(cands, awake), true
	}
	i := m.chooseN(len(awake))
	t := awake[i]
	ts := m.accessesOf(t)
	var ns []sleeper
	for _, s := range p.sleep {
		if !dependent(s, ts) {
			ns = append(ns, s)
		}
	}
	for _, e := range awake[:i] {
		es := m.accessesOf(e)
		if !dependent(es, ts) {
			ns = append(ns, es)
		}
	}
	p.sleep = ns
	if noSleepSets || m.P.Params["NOSLEEP"] == 1 {
		p.sleep = nil
	}
	p.schedSteps++
	if len(awake) > 1 {
		p.schedChoices++
	}
	return m.applyTrans(t), true
}

// applyTrans performs the channel effect of t on behalf of its goroutine(s).
func (m *Machine) applyTrans(t trans) *goroutine {
	m.path.transSeq++
	if traceTrans {
		m.path.events = append(m.path.events, "T "+t.String()+":"+strings.ReplaceAll(m.gor[t.g].pending.what, " ", "_"))
	}
	g := m.gor[t.g]
	op := g.pending
	if Trace {
		fmt.Printf("SCHED %v %s\n", t, op.what)
	}
	finish := func(x *goroutine, r schedResult) {
		x.result = &r
		x.pending = nil
	}
	switch {
	case t.k == -5:
		g.pending = nil
		g.parked = false
		return g
	case t.k == -4:
		finish(g, schedResult{})
		g.parked = false
		return g
	case t.k == -2:
		ch := op.cases[0].ch
		ch.Closed = true
		m.vcClose(g, ch)
		finish(g, schedResult{})
		g.parked = false
		m.path.events = append(m.path.events, fmt.Sprintf("CLOSE c%d", ch.ID))
		return g
	case t.k == -1:
		finish(g, schedResult{idx: -1})
		g.parked = false
		return g
	}
	c := op.cases[t.k]
	if c.send {
		if c.ch.Closed {
			finish(g, schedResult{idx: t.k, closed: true})
			g.parked = false
			return g
		}
		m.path.events = append(m.path.events, fmt.Sprintf("SEND c%d g%d", c.ch.ID, g.id))
		if t.p >= 0 {
			// rendez-vous: the receiver continues first, the sender resumes as a local step
			r := m.gor[t.p]
			m.vcRendezvous(g, r)
			finish(r, schedResult{idx: t.pk, v: c.v, ok: true})
			finish(g, schedResult{idx: t.k})
			g.pending = &schedOp{kind: opLocal}
			r.parked = false
			m.path.events = append(m.path.events, fmt.Sprintf("RECV c%d g%d", c.ch.ID, r.id))
			return r
		}
		c.ch.Buf = append(c.ch.Buf, chanItem{v: c.v, vc: m.vcSend(g, c.ch)})
		finish(g, schedResult{idx: t.k})
		g.parked = false
		return g
	}
	// receive
	if len(c.ch.Buf) > 0 {
		it := c.ch.Buf[0].(chanItem)
		c.ch.Buf = c.ch.Buf[1:]
		m.vcRecv(g, c.ch, it.vc)
		finish(g, schedResult{idx: t.k, v: it.v, ok: true})
		m.path.events = append(m.path.events, fmt.Sprintf("RECV c%d g%d", c.ch.ID, g.id))
	} else {
		m.vcRecvClosed(g, c.ch)
		finish(g, schedResult{idx: t.k, ok: false})
	}
	g.parked = false
	return g
}

// schedPoint parks the current goroutine with op and runs the scheduler until this goroutine
// is chosen; it returns the result of its transition.
func (m *Machine) schedPoint(fr *frame, op *schedOp) schedResult {
	g := m.cur
	if m.noForkDepth > 0 {
		m.unsupported("visible operation inside a pure summary run")
	}
	g.pending = op
	g.result = nil
	g.parked = true
	g.parkSeq = m.path.transSeq
	g.fr = fr
	m.schedLoop(g)
	r := schedResult{}
	if g.result != nil {
		r = *g.result
	}
	g.result = nil
	return r
}

func (m *Machine) schedLoop(g *goroutine) {
	for {
		next, ok := m.pickTransition()
		if !ok {
			what := "?"
			if g.pending != nil {
				what = g.pending.what
			}
			m.endPathFrom(g, pathEnd{OutBlocked, "deadlock: all goroutines blocked (" + what + ")"})
		}
		if next == g {
			return
		}
		g.waiting = true
		m.switchTo(next)
		msg := <-g.resume
		if msg.abort {
			if g.isMain && m.path.pendingEnd != nil {
				panic(*m.path.pendingEnd)
			}
			panic(pathEnd{outAbort, ""})
		}
		if !g.parked {
			return // somebody applied our transition (or our local step) and handed us the baton
		}
	}
}

// schedGoroutineDone: a goroutine finished in sched mode; hand the baton on.
func (m *Machine) schedGoroutineDone(g *goroutine) {
	next, ok := m.pickTransition()
	if !ok {
		pe := pathEnd{OutBlocked, "deadlock: all goroutines blocked after a goroutine finished"}
		m.path.pendingEnd = &pe
		m.wakeMainAbort()
		return
	}
	m.switchTo(next)
}

// ---- the visible operations ----

func (m *Machine) schedSpawn(fr *frame, fn Value, args []Value) {
	parent := m.cur
	g := &goroutine{id: len(m.gor), fn: fn, args: args, resume: make(chan resumeMsg, 1)}
	m.vcFork(parent, g)
	m.gor = append(m.gor, g)
	if m.path.gclock != nil {
		m.path.gclock[g.id] = append([]int(nil), m.path.gclock[parent.id]...)
	}
	m.path.events = append(m.path.events, fmt.Sprintf("GO g%d", g.id))
	// the child runs up to its first visible operation, then the parent continues (local step)
	g.pending = nil
	parent.pending = &schedOp{kind: opLocal}
	parent.parked = true
	parent.fr = fr
	parent.waiting = true
	m.switchTo(g)
	msg := <-parent.resume
	if msg.abort {
		if parent.isMain && m.path.pendingEnd != nil {
			panic(*m.path.pendingEnd)
		}
		panic(pathEnd{outAbort, ""})
	}
}

func (m *Machine) schedSend(fr *frame, ch *Chan, v Value) {
	if ch != nil && ch.Sink {
		return
	}
	r := m.schedPoint(fr, &schedOp{kind: opComm, cases: []schedCase{{ch: ch, send: true, v: v}}, what: fmt.Sprintf("send c%d", chID(ch))})
	if r.closed {
		m.throwRuntimeText("send on closed channel")
	}
}

func chID(ch *Chan) int {
	if ch == nil {
		return 0
	}
	return ch.ID
}

func (m *Machine) schedRecv(fr *frame, ch *Chan, commaOk bool, t types.Type) Value {
	r := m.schedPoint(fr, &schedOp{kind: opComm, cases: []schedCase{{ch: ch}}, what: fmt.Sprintf("recv c%d", chID(ch))})
	var elemT types.Type
	if commaOk {
		elemT = t.(*types.Tuple).At(0).Type()
	} else {
		elemT = t
	}
	v := r.v
	if !r.ok {
		v = m.zero(elemT)
	}
	if commaOk {
		return Tuple{v, m.ts.Bool(r.ok)}
	}
	return v
}

func (m *Machine) schedClose(fr *frame, ch *Chan) {
	if ch == nil {
		m.throwRuntimeText("close of nil channel")
	}
	if ch.Closed {
		m.throwRuntimeText("close of closed channel")
	}
	m.schedPoint(fr, &schedOp{kind: opClose, cases: []schedCase{{ch: ch}}, what: fmt.Sprintf("close c%d", ch.ID)})
}

func (m *Machine) schedSelect(fr *frame, instr *ssa.Select) Value {
	op := &schedOp{kind: opComm, hasDefault: !instr.Blocking, what: "select"}
	allNil := true
	for _, s := range instr.States {
		ch, _ := fr.get(s.Chan).(*Chan)
		c := schedCase{ch: ch, send: s.Dir == types.SendOnly}
		if c.send {
			c.v = fr.get(s.Send)
			if ch != nil && ch.Sink {
				m.unsupported("sink channel inside select")
			}
		}
		if ch != nil {
			allNil = false
			op.what += fmt.Sprintf(" c%d", ch.ID)
		}
		op.cases = append(op.cases, c)
	}
	var r schedResult
	if allNil && op.hasDefault {
		r = schedResult{idx: -1} // polling only nil channels: invisible
	} else {
		r = m.schedPoint(fr, op)
	}
	if r.closed {
		m.throwRuntimeText("send on closed channel")
	}
	out := Tuple{m.ts.BV(uint64(int64(r.idx)), 64), m.ts.Bool(r.ok && r.idx >= 0 && !op.cases[r.idx].send)}
	for i, s := range instr.States {
		if s.Dir == types.RecvOnly {
			elemT := s.Chan.Type().Underlying().(*types.Chan).Elem()
			if i == r.idx && r.ok {
				out = append(out, r.v)
			} else {
				out = append(out, m.zero(elemT))
			}
		}
	}
	return out
}

// schedQuiesce blocks the caller until no other goroutine can make a step.
func (m *Machine) schedQuiesce(fr *frame) {
	m.schedPoint(fr, &schedOp{kind: opQuiesce, what: "await quiescence"})
}

// snapshot records the state of every goroutine (used at quiescence).
func (m *Machine) snapshotGoroutines() {
	var infos []gInfo
	for _, g := range m.gor {
		gi := gInfo{id: g.id, done: g.done}
		if g == m.cur {
			gi.op = "running"
		} else if g.pending != nil {
			switch g.pending.kind {
			case opLocal:
				gi.op = "local"
			case opQuiesce:
				gi.op = "quiesce"
			case opClose:
				gi.op = "close"
			case opMutex:
				gi.op = "lock"
			case opWait:
				gi.op = "wait"
			default:
				if len(g.pending.cases) == 1 && !g.pending.hasDefault {
					if g.pending.cases[0].send {
						gi.op = "send"
					} else {
						gi.op = "recv"
					}
				} else {
					gi.op = "select"
				}
			}
		}
		var names []string
		for fr := g.fr; fr != nil; fr = fr.caller {
			names = append(names, fr.fn.String())
		}
		gi.stack = strings.Join(names, " < ")
		infos = append(infos, gi)
	}
	m.path.snapshot = infos
}

// liveCount: goroutines of the last snapshot that are alive, have a function whose name
// contains substr on their stack and are parked in an operation of kind op ("" = any).
func (m *Machine) liveCount(substr, op string) int {
	n := 0
	for _, gi := range m.path.snapshot {
		if gi.done || gi.op == "running" || gi.op == "quiesce" || gi.id < m.path.snapBase {
			continue
		}
		if substr != "" && !strings.Contains(gi.stack, substr) {
			continue
		}
		if op != "" && gi.op != op {
			continue
		}
		n++
	}
	return n
}

// pickDPOR: the DPOR variant of the choice at a scheduling node (see dpor.go).
func (m *Machine) pickDPOR(cands, awake []trans) *goroutine {
	p := m.path
	ndIdx := len(p.nodes)
	nd := &nodeRec{key: nodeKey(p.decisions, ndIdx), decOff: len(p.decisions), cands: cands, awake: awake, parked: map[int]*schedOp{}, sleepAt: len(p.sleepAtOwn)}
	for _, g := range m.gor {
		if !g.done && g.parked && g.pending != nil {
			nd.parked[g.id] = g.pending
		}
	}
	for _, t := range awake {
		nd.accs = append(nd.accs, m.accessesOf(t))
	}
	var sleepAdd []sleeper
	replay := p.pos < len(p.prefix) || (len(awake) == 1 && ndIdx < len(p.item.sleepAt))
	i := 0
	if p.pos < len(p.prefix) {
		i = m.chooseN(len(awake)) // follows the prefix (no new forks while replaying)
	} else if len(awake) > 1 {
		p.decisions = append(p.decisions, true)
	}
	if ndIdx < len(p.item.sleepAt) {
		sleepAdd = p.item.sleepAt[ndIdx]
	} else {
		nd.isNew = true
	}
	_ = replay
	nd.chosen = i
	p.nodes = append(p.nodes, nd)
	p.sleepAtOwn = append(p.sleepAtOwn, sleepAdd)
	t := awake[i]
	ts := nd.accs[i]
	if nd.isNew {
		p.newNodes = append(p.newNodes, nodeReg{key: nd.key, chosen: ts})
	}
	// alternatives enabled together with the chosen transition and dependent on it
	for a := range awake {
		if a != i && dependent(nd.accs[a], ts) {
			m.dporRequest(nd, a)
		}
	}
	m.dporStep(nd, ndIdx, t, ts, false)
	var ns []sleeper
	for _, s := range p.sleep {
		if !dependent(s, ts) {
			ns = append(ns, s)
		}
	}
	for _, s := range sleepAdd {
		if s.t != t && !dependent(s, ts) {
			ns = append(ns, s)
		}
	}
	p.sleep = ns
	p.schedSteps++
	if len(awake) > 1 {
		p.schedChoices++
	}
	return m.applyTrans(t)
}
