package gse

import (
	"fmt"
	"go/token"
	"go/types"
	"strings"

	"golang.org/x/tools/go/ssa"
)

// ---- builtins ----

func (m *Machine) callBuiltin(caller *frame, pos token.Pos, fn *ssa.Builtin, args []Value) Value {
	switch fn.Name() {
	case "append":
		if len(args) == 1 {
			return args[0]
		}
		if s, ok := args[1].(Str); ok {
			// append([]byte, string...)
			cs, okc := s.Concrete()
			if !okc {
				m.unsupported("append of symbolic string to []byte")
			}
			dst := args[0].(Slice)
			out := dst.A
			for i := 0; i < len(cs); i++ {
				out = append(out, m.ts.BV(uint64(cs[i]), 8))
			}
			return Slice{A: out}
		}
		dst := args[0].(Slice)
		src := args[1].(Slice)
		if len(src.A) == 0 {
			return dst
		}
		out := dst.A
		for _, e := range src.A {
			out = append(out, copyVal(e))
		}
		return Slice{A: out}
	case "copy":
		dst := args[0].(Slice)
		switch src := args[1].(type) {
		case Slice:
			n := len(dst.A)
			if len(src.A) < n {
				n = len(src.A)
			}
			tmp := make([]Value, n)
			for i := 0; i < n; i++ {
				tmp[i] = copyVal(src.A[i])
			}
			for i := 0; i < n; i++ {
				dst.A[i] = tmp[i]
			}
			return m.ts.BV(uint64(n), 64)
		case Str:
			cs, ok := src.Concrete()
			if !ok {
				m.unsupported("copy from symbolic string")
			}
			n := len(dst.A)
			if len(cs) < n {
				n = len(cs)
			}
			for i := 0; i < n; i++ {
				dst.A[i] = m.ts.BV(uint64(cs[i]), 8)
			}
			return m.ts.BV(uint64(n), 64)
		}
	case "close":
		if m.schedOn() {
			m.schedClose(caller, args[0].(*Chan))
		} else {
			m.chanClose(args[0].(*Chan))
		}
		return nil
	case "delete":
		m.mapDelete(args[0].(*Map), args[1])
		return nil
	case "print", "println":
		return nil
	case "len":
		switch x := args[0].(type) {
		case Str:
			return m.strLen(x)
		case Array:
			return m.ts.BV(uint64(len(x)), 64)
		case Ptr:
			return m.ts.BV(uint64(len((*x).(Array))), 64)
		case Slice:
			return m.ts.BV(uint64(len(x.A)), 64)
		case *Map:
			if x == nil {
				return m.ts.BV(0, 64)
			}
			return m.ts.BV(uint64(x.N), 64)
		case *Chan:
			if x == nil {
				return m.ts.BV(0, 64)
			}
			return m.ts.BV(uint64(len(x.Buf)), 64)
		}
	case "cap":
		switch x := args[0].(type) {
		case Array:
			return m.ts.BV(uint64(len(x)), 64)
		case Ptr:
			return m.ts.BV(uint64(len((*x).(Array))), 64)
		case Slice:
			return m.ts.BV(uint64(cap(x.A)), 64)
		case *Chan:
			if x == nil {
				return m.ts.BV(0, 64)
			}
			return m.ts.BV(uint64(x.Cap), 64)
		}
	case "recover":
		return m.doRecover(caller)
	case "min", "max":
		r := args[0].(*Term)
		for _, a := range args[1:] {
			at := a.(*Term)
			var c *Term
			if fn.Name() == "min" {
				c = m.ts.CmpBV(OSLt, at, r)
			} else {
				c = m.ts.CmpBV(OSLt, r, at)
			}
			r = m.ts.Ite(c, at, r)
		}
		return r
	case "ssa:wrapnilchk":
		recv := args[0]
		if p, ok := recv.(Ptr); ok && p == nil {
			m.throwRuntime("value method called using nil pointer")
		}
		return recv
	}
	m.unsupported("builtin " + fn.Name())
	return nil
}

// ---- symbolic interface invocation ----

// invokeSym calls method on a symbolic-selector interface. When every alternative is a
// "pure" type (the mode enum), the result is summarised from concrete runs of the real
// methods into an ite-table; otherwise the selector is concretised (fork).
func (m *Machine) invokeSym(caller *frame, pos token.Pos, recv *SymIface, method *types.Func, args []Value) Value {
	pure := true
	for _, a := range recv.Alts {
		if a.T == nil || !m.P.PureTypes(a.T) {
			pure = false
		}
	}
	var symArg *SymIface
	symArgIdx := -1
	for i, a := range args {
		if s, ok := a.(*SymIface); ok {
			if symArg != nil {
				pure = false
			}
			symArg, symArgIdx = s, i
			for _, alt := range s.Alts {
				if alt.T == nil || !m.P.PureTypes(alt.T) {
					pure = false
				}
			}
		}
	}
	if pure {
		if r, ok := m.summarise(caller, recv, method, args, symArg, symArgIdx); ok {
			return r
		}
	}
	c := m.concretizeSym(recv)
	f := m.P.lookupMethod(c.T, method)
	if f == nil {
		m.unsupported(fmt.Sprintf("method %s of %s not found", method, c.T))
	}
	cargs := append([]Value{c.V}, args...)
	return m.call(caller, pos, f, cargs)
}

type sumCase struct {
	cond *Term
	res  Value
	pan  bool
}

func (m *Machine) summarise(caller *frame, recv *SymIface, method *types.Func, args []Value, symArg *SymIface, symArgIdx int) (Value, bool) {
	var cases []sumCase
	nArg := 1
	if symArg != nil {
		nArg = len(symArg.Alts)
	}
	for i, alt := range recv.Alts {
		ci := m.ts.Eq(recv.Sel, m.ts.BV(uint64(i), 64))
		if v, ok := m.implied(ci); ok && !v {
			continue
		}
		f := m.P.lookupMethod(alt.T, method)
		if f == nil {
			return nil, false
		}
		for j := 0; j < nArg; j++ {
			cond := ci
			cargs := append([]Value{alt.V}, args...)
			if symArg != nil {
				cj := m.ts.Eq(symArg.Sel, m.ts.BV(uint64(j), 64))
				if v, ok := m.implied(cj); ok && !v {
					continue
				}
				cond = m.ts.And(ci, cj)
				cargs[symArgIdx+1] = symArg.Alts[j]
			}
			if cond.IsConst() && !cond.B {
				continue
			}
			res, pan, ok := m.pureCall(caller, f, cargs)
			if !ok {
				return nil, false
			}
			cases = append(cases, sumCase{cond, res, pan})
		}
	}
	if len(cases) == 0 {
		m.endPath(OutAssume, "no feasible alternative for symbolic receiver")
	}
	// panicking combinations: fork once; on the panicking side fall back to concrete dispatch
	panCond := m.ts.False
	for _, c := range cases {
		if c.pan {
			panCond = m.ts.Or(panCond, c.cond)
		}
	}
	if !(panCond.IsConst() && !panCond.B) {
		if m.branch(panCond) {
			return nil, false
		}
	}
	var live []sumCase
	for _, c := range cases {
		if !c.pan {
			live = append(live, c)
		}
	}
	if len(live) == 0 {
		return nil, false
	}
	// merge
	switch r0 := live[len(live)-1].res.(type) {
	case nil:
		return nil, true
	case *Term:
		acc := r0
		for k := len(live) - 2; k >= 0; k-- {
			t, ok := live[k].res.(*Term)
			if !ok {
				return nil, false
			}
			acc = m.ts.Ite(live[k].cond, t, acc)
		}
		return acc, true
	case Str:
		s0, ok := r0.Concrete()
		if !ok {
			return nil, false
		}
		acc := m.ts.StrC(s0)
		for k := len(live) - 2; k >= 0; k-- {
			s, ok := live[k].res.(Str)
			if !ok {
				return nil, false
			}
			cs, ok := s.Concrete()
			if !ok {
				return nil, false
			}
			acc = m.ts.Ite(live[k].cond, m.ts.StrC(cs), acc)
		}
		return m.strFromTerm(acc), true
	case Iface:
		// e.g. Copy(): result selector follows the receiver selector (only without a symbolic argument)
		if symArg != nil || len(live) != len(recv.Alts) {
			return nil, false
		}
		alts := make([]Iface, len(live))
		for k, c := range live {
			i, ok := c.res.(Iface)
			if !ok {
				return nil, false
			}
			alts[k] = i
		}
		return &SymIface{Sel: recv.Sel, Alts: alts}, true
	}
	return nil, false
}

// pureCall runs f concretely; symbolic branching inside aborts the summary.
func (m *Machine) pureCall(caller *frame, f *ssa.Function, args []Value) (res Value, panicked bool, ok bool) {
	m.noForkDepth++
	savedDepth := m.depth
	savedFr := m.cur.fr
	defer func() {
		m.noForkDepth--
		m.depth = savedDepth
		m.cur.fr = savedFr
		if r := recover(); r != nil {
			switch r.(type) {
			case targetPanic:
				res, panicked, ok = nil, true, true
			case summaryFork:
				res, panicked, ok = nil, false, false
			default:
				panic(r)
			}
		}
	}()
	res = m.call(caller, token.NoPos, f, args)
	return res, false, true
}

// ---- the vn nondeterminism API (grits/zzvn), intercepted by name ----

func (m *Machine) newNondet(kind string, sort Sort, w uint8, lo, hi int64) *Term {
	p := m.path
	t := m.ts.Var(fmt.Sprintf("n%d", len(p.nondet)), sort, w)
	p.nondet = append(p.nondet, nondetVar{kind: kind, t: t, lo: lo, hi: hi})
	return t
}

func (m *Machine) boolToInt(b *Term) *Term {
	return m.ts.Ite(b, m.ts.BV(1, 64), m.ts.BV(0, 64))
}

func (m *Machine) callVN(caller *frame, name string, fn *ssa.Function, args []Value) Value {
	ts := m.ts
	if v, ok := m.callVNCli(name, args); ok {
		return v
	}
	switch name {
	case "Int":
		lo, hi := m.concreteInt(args[0], "vn.Int bound"), m.concreteInt(args[1], "vn.Int bound")
		if lo == hi {
			// still consumes a vector slot natively
			t := m.newNondet("int", SBV, 64, lo, hi)
			m.addPC(ts.Eq(t, ts.BV(uint64(lo), 64)))
			return ts.BV(uint64(lo), 64)
		}
		t := m.newNondet("int", SBV, 64, lo, hi)
		m.addPC(ts.And(ts.CmpBV(OSLe, ts.BV(uint64(lo), 64), t), ts.CmpBV(OSLe, t, ts.BV(uint64(hi), 64))))
		return t
	case "Pick":
		n := m.concreteInt(args[0], "vn.Pick bound")
		t := m.newNondet("int", SBV, 64, 0, n-1)
		m.addPC(ts.And(ts.CmpBV(OSLe, ts.BV(0, 64), t), ts.CmpBV(OSLe, t, ts.BV(uint64(n-1), 64))))
		for i := int64(0); i < n-1; i++ {
			if m.branch(ts.Eq(t, ts.BV(uint64(i), 64))) {
				return ts.BV(uint64(i), 64)
			}
		}
		return ts.BV(uint64(n-1), 64)
	case "Bool":
		t := m.newNondet("bool", SBool, 0, 0, 1)
		return t
	case "Rune":
		t := m.newNondet("rune", SBV, 32, 0, 0x10FFFF)
		// any Unicode scalar value
		valid := ts.And(ts.CmpBV(OULe, t, ts.BV(0x10FFFF, 32)),
			ts.Or(ts.CmpBV(OULt, t, ts.BV(0xD800, 32)), ts.CmpBV(OULt, ts.BV(0xDFFF, 32), t)))
		m.addPC(valid)
		return t
	case "StrOf":
		sel := args[0].(*Term)
		opts := args[1].(Slice).A
		if len(opts) == 0 {
			return Str{}
		}
		last, _ := opts[len(opts)-1].(Str).Concrete()
		acc := ts.StrC(last)
		for i := len(opts) - 2; i >= 0; i-- {
			s, ok := opts[i].(Str).Concrete()
			if !ok {
				m.unsupported("vn.StrOf with symbolic option")
			}
			acc = ts.Ite(ts.Eq(sel, ts.BV(uint64(i), 64)), ts.StrC(s), acc)
		}
		return m.strFromTerm(acc)
	case "EnumOf":
		sel := args[0].(*Term)
		n := m.concreteInt(args[1], "vn.EnumOf count")
		mk := args[2]
		alts := make([]Iface, n)
		for i := int64(0); i < n; i++ {
			r := m.call(caller, token.NoPos, mk, []Value{ts.BV(uint64(i), 64)})
			alts[i] = r.(Iface)
		}
		if sel.IsConst() {
			i := sext64(sel.I, 64)
			if i < 0 || i >= n {
				m.endPath(OutAssume, "EnumOf selector out of range")
			}
			return alts[i]
		}
		return &SymIface{Sel: sel, Alts: alts}
	case "Register", "NativeMain":
		return nil
	case "Param":
		name, _ := args[0].(Str).Concrete()
		if v, ok := m.P.Params[name]; ok {
			return ts.BV(uint64(int64(v)), 64)
		}
		return args[1]
	case "Assume":
		m.assume(args[0].(*Term))
		return nil
	case "Assert":
		id, _ := args[0].(Str).Concrete()
		if m.P.AssertPrefix != "" && !strings.HasPrefix(id, m.P.AssertPrefix) {
			return nil
		}
		m.vnAssert(id, args[1].(*Term))
		return nil
	case "Known":
		fid, _ := args[0].(Str).Concrete()
		if m.P.OpenFindings[fid] {
			m.path.known = append(m.path.known, knownRegion{fid, args[1].(*Term)})
		}
		return nil
	case "Observe":
		key, _ := args[0].(Str).Concrete()
		v := args[1]
		if i, ok := v.(Iface); ok {
			v = i.V
		}
		m.path.obs = append(m.path.obs, obsEntry{key, v})
		return nil
	case "Reach":
		id, _ := args[0].(Str).Concrete()
		if !m.replaying() {
			m.path.reached[id]++
		}
		return nil
	case "And":
		return ts.And(args[0].(*Term), args[1].(*Term))
	case "Or":
		return ts.Or(args[0].(*Term), args[1].(*Term))
	case "Not":
		return ts.Not(args[0].(*Term))
	case "Implies":
		return ts.Implies(args[0].(*Term), args[1].(*Term))
	case "Ite":
		return ts.Ite(args[0].(*Term), args[1].(*Term), args[2].(*Term))
	case "IteS":
		c := args[0].(*Term)
		if c.IsConst() {
			if c.B {
				return args[1]
			}
			return args[2]
		}
		return m.strFromTerm(ts.Ite(c, m.strTerm(args[1].(Str)), m.strTerm(args[2].(Str))))
	case "IteAny":
		c := args[0].(*Term)
		if c.IsConst() {
			if c.B {
				return args[1]
			}
			return args[2]
		}
		toSym := func(v Value) *SymIface {
			switch v := v.(type) {
			case *SymIface:
				return v
			case Iface:
				return &SymIface{Sel: ts.BV(0, 64), Alts: []Iface{v}}
			}
			m.unsupported("vn.IteAny operand")
			return nil
		}
		x, y := toSym(args[1]), toSym(args[2])
		alts := append(append([]Iface{}, y.Alts...), x.Alts...)
		sel := ts.Ite(c, ts.BinBV(OAdd, x.Sel, ts.BV(uint64(len(y.Alts)), 64)), y.Sel)
		return &SymIface{Sel: sel, Alts: alts}
	case "OpaqueStr":
		i := m.concreteInt(args[0], "vn.OpaqueStr index")
		v := ts.Var(fmt.Sprintf("ostr%d", i), SStr, 0)
		m.addPC(ts.StrIsIdent(v))
		return m.strFromTerm(v)
	case "Tokens":
		return m.tokens(args[0].(Str))
	case "Watch":
		var ptr Ptr
		switch v := args[0].(type) {
		case Iface:
			ptr, _ = v.V.(Ptr)
		case Ptr:
			ptr = v
		}
		if ptr == nil {
			m.unsupported("vn.Watch of a non-pointer")
		}
		if m.path.watch == nil {
			m.path.watch = map[Ptr]bool{}
		}
		m.path.watch[ptr] = true
		return nil
	case "Par":
		m.path.thread = 1
		m.call(caller, token.NoPos, args[0], nil)
		m.path.thread = 2
		m.call(caller, token.NoPos, args[1], nil)
		m.path.thread = 0
		return nil
	case "CountCalls":
		sub, ok := args[0].(Str).Concrete()
		if !ok {
			m.unsupported("vn.CountCalls with a symbolic name")
		}
		m.path.countSub = sub
		m.path.callCount = 0
		return nil
	case "Calls":
		return ts.BV(uint64(m.path.callCount), 64)
	case "SchedStart":
		m.path.sched = true
		m.cur.parked = false
		return nil
	case "SchedStop":
		m.path.sched = false
		return nil
	case "SchedQuiesce":
		if !m.schedOn() {
			m.drain()
			return nil
		}
		m.schedQuiesce(caller)
		return nil
	case "SnapshotBaseline":
		m.path.snapBase = len(m.gor)
		return nil
	case "SnapshotGoroutines":
		m.snapshotGoroutines()
		return nil
	case "Live":
		sub, okS := args[0].(Str).Concrete()
		op, okO := args[1].(Str).Concrete()
		if !okS || !okO {
			m.unsupported("vn.Live with symbolic arguments")
		}
		return ts.BV(uint64(m.liveCount(sub, op)), 64)
	case "ChanSink":
		if ch, ok := args[0].(Iface).V.(*Chan); ok && ch != nil {
			ch.Sink = true
		} else {
			m.unsupported("vn.ChanSink of a non-channel")
		}
		return nil
	case "ChanDoneOnly":
		if ch, ok := args[0].(Iface).V.(*Chan); ok && ch != nil {
			ch.DoneOnly = true
		} else {
			m.unsupported("vn.ChanDoneOnly of a non-channel")
		}
		return nil
	case "RaceDetect":
		// everything done so far happens-before everything that follows
		m.path.raceOn = true
		m.path.shadows = nil
		var all vclock
		for _, g := range m.gor {
			all = joinVC(all, g.vc)
		}
		for _, g := range m.gor {
			g.vc = all.copyVC()
			g.tick()
		}
		return nil
	case "Races":
		return ts.BV(uint64(len(m.path.races)), 64)
	case "RaceFree":
		if m.path.raceOn {
			if len(m.path.races) > 0 {
				m.path.lastPanic = "data race: " + m.path.races[0]
			}
			return ts.Bool(len(m.path.races) == 0)
		}
		// no two accesses from different threads to one watched cell with a write among them
		// unless both are atomic
		free := true
		var first string
		for i, a := range m.path.accesses {
			for _, b := range m.path.accesses[:i] {
				if a.addr == b.addr && a.thread != b.thread && a.thread != 0 && b.thread != 0 && (a.write || b.write) && !(a.atomic && b.atomic) {
					free = false
					if first == "" {
						first = b.where + " / " + a.where
					}
				}
			}
		}
		if !free {
			m.path.lastPanic = "conflicting accesses: " + first
		}
		return ts.Bool(free)
	case "EqS":
		return m.strEq(args[0].(Str), args[1].(Str))
	case "B2I":
		return m.boolToInt(args[0].(*Term))
	case "Try":
		return m.vnTry(caller, args[0])
	case "Expect":
		// declare an outcome acceptable for the rest of this path: 1 panic, 2 unwind, 3 blocked, 4 exit
		k := m.concreteInt(args[0], "vn.Expect kind")
		m.path.expect[[]Outcome{OutOK, OutPanic, OutUnwind, OutBlocked, OutExit}[k]] = true
		return nil
	case "Drain":
		m.drain()
		return nil
	case "Symbolic":
		return ts.True
	case "Limits":
		d, l := m.concreteInt(args[0], "limit"), m.concreteInt(args[1], "limit")
		if d > 0 {
			m.lim.Depth = int(d)
		}
		if l > 0 {
			m.lim.Loop = int(l)
		}
		return nil
	case "ReadCount":
		return ts.BV(uint64(m.path.readRunes), 64)
	case "CaptureBegin":
		m.path.outputs = nil
		return nil
	case "CaptureEnd":
		var out []Value
		for _, s := range m.path.outputs {
			// one entry per printed line (the trailing newline is dropped)
			if cs, ok := s.Concrete(); ok {
				for _, l := range strings.Split(cs, "\n") {
					if l != "" {
						out = append(out, mkStr(l))
					}
				}
				continue
			}
			if n := len(s.parts); n > 0 && s.parts[n-1].r == nil && s.parts[n-1].t == nil && strings.HasSuffix(s.parts[n-1].s, "\n") {
				ps := append([]spart(nil), s.parts...)
				ps[n-1].s = strings.TrimSuffix(ps[n-1].s, "\n")
				s = Str{ps}
			}
			out = append(out, s)
		}
		m.path.outputs = nil
		return Slice{A: out}
	case "Outputs":
		out := make([]Value, len(m.path.outputs))
		for i, s := range m.path.outputs {
			out[i] = s
		}
		return Slice{A: out}
	case "Concretize":
		// fork until the int is a constant (bounded by its vn.Int range)
		t := args[0].(*Term)
		lo, hi := m.concreteInt(args[1], "bound"), m.concreteInt(args[2], "bound")
		for v := lo; v < hi; v++ {
			if m.branch(ts.Eq(t, ts.BV(uint64(v), 64))) {
				return ts.BV(uint64(v), 64)
			}
		}
		return ts.BV(uint64(hi), 64)
	}
	// anything else in zzvn is ordinary Go: interpret it
	if fn.Blocks != nil {
		return m.callSSAPlain(caller, fn, args)
	}
	m.unsupported("vn." + name)
	return nil
}

// vnTry runs f, returning true iff it panicked (panic value discarded).
func (m *Machine) vnTry(caller *frame, f Value) (res Value) {
	savedDepth := m.depth
	savedFr := m.cur.fr
	defer func() {
		if r := recover(); r != nil {
			if tp, ok := r.(targetPanic); ok {
				m.depth = savedDepth
				m.cur.fr = savedFr
				m.path.lastPanic = m.panicText(tp)
				res = m.ts.True
				return
			}
			panic(r)
		}
	}()
	m.call(caller, token.NoPos, f, nil)
	return m.ts.False
}

// tokens renders a rope as its Grits token sequence joined by single spaces. Opaque string
// atoms count as word material (they stand for identifiers).
func (m *Machine) tokens(a Str) Str {
	type item struct {
		c  byte
		at *Term
	}
	var items []item
	for _, p := range a.parts {
		switch {
		case p.t != nil:
			items = append(items, item{at: p.t})
		case p.r != nil:
			m.unsupported("vn.Tokens of a string with symbolic runes")
		default:
			for i := 0; i < len(p.s); i++ {
				items = append(items, item{c: p.s[i]})
			}
		}
	}
	isWord := func(it item) bool {
		if it.at != nil {
			return true
		}
		c := it.c
		return (c >= 'a' && c <= 'z') || (c >= 'A' && c <= 'Z') || (c >= '0' && c <= '9') || c == '_' || c == '\''
	}
	isSpace := func(it item) bool {
		return it.at == nil && (it.c == ' ' || it.c == '\t' || it.c == '\n' || it.c == '\r' || it.c == '\v')
	}
	var out Str
	first := true
	emit := func(tok Str) {
		if !first {
			out = concatStr(out, mkStr(" "))
		}
		first = false
		out = concatStr(out, tok)
	}
	two := map[string]bool{"-*": true, "-o": true, "/\\": true, "\\/": true, "=>": true, "<-": true}
	for i := 0; i < len(items); {
		it := items[i]
		switch {
		case isSpace(it):
			i++
		case isWord(it):
			var tok Str
			for i < len(items) && isWord(items[i]) {
				if items[i].at != nil {
					tok = concatStr(tok, m.strFromTerm(items[i].at))
				} else {
					tok = concatStr(tok, mkStr(string([]byte{items[i].c})))
				}
				i++
			}
			emit(tok)
		default:
			if i+1 < len(items) && items[i+1].at == nil && two[string([]byte{it.c, items[i+1].c})] {
				emit(mkStr(string([]byte{it.c, items[i+1].c})))
				i += 2
			} else {
				emit(mkStr(string([]byte{it.c})))
				i++
			}
		}
	}
	return out
}
