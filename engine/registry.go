package gse

// Properties: which harnesses decide which property, with their tier bounds.
var Properties = map[string]PropDef{
	"C17": {
		ID:         "C17",
		Exhaustive: true,
		Bounds:     "none inside the domain: all 4 / 16 / 64 mode tuples are one symbolic query each; spellings: every rune string of length 0..10 over code points < 128 except A-Z",
		Assumptions: []string{
			"strings.ToLower is stubbed as the identity on strings without upper-case ASCII letters (upper-case spellings are outside the claim)",
			"mode values are modelled as a symbolic selector over the real mode objects; pointer identity of mode values is not observed by the code under test",
		},
		Outside: "upper-case / non-ASCII spellings",
		Harnesses: []HarnessDef{
			{Name: "types.ZZC17Orders"},
			{Name: "types.ZZC17Spellings"},
			{Name: "types.ZZC17Names"},
		},
	},
	"C08": {
		ID:     "C08",
		Bounds: "quick: environments of K<=2 names with depth-1 bodies (10 constructors, 3 labels, 4 modes, legal shifts, alias chains) against query types S,T that are unit or a name, plus K=1 with S,T of depth<=1; thorough: K=3 with leaf queries, K=2 with depth-1 queries, K=1 with depth-2 queries. Unwinding assertion: call depth 200 / 300 loop iterations",
		Assumptions: []string{
			"environments are well-formed, contractive and mode-complete by construction (the documented precondition of EqualType); alias bodies name a lower-numbered definition",
			"reflect.TypeOf is modelled as the dynamic-type token of its operand; bytes.Buffer as a rope of string parts",
			"the reference verdict is bisimilarity of regular trees computed as a least fixed point (K*K+1 rounds) by harness code that is itself replayed natively",
		},
		Outside: "environments with more than 3 names or bodies deeper than 1; query types deeper than 2; map iteration order",
		Harnesses: []HarnessDef{
			{Name: "types.ZZC08Oracle", Quick: map[string]int{"K": 2, "D": 0}, Thorough: map[string]int{"K": 3, "D": 0}, Depth: 200},
			{Name: "types.ZZC08Oracle", Quick: map[string]int{"K": 1, "D": 1}, Thorough: map[string]int{"K": 2, "D": 1}, Depth: 200},
			{Name: "types.ZZC08Oracle", Quick: map[string]int{"K": 0, "D": 1}, Thorough: map[string]int{"K": 1, "D": 2}, Depth: 200},
			{Name: "types.ZZC08Laws", Quick: map[string]int{"K": 2, "D": 0}, Thorough: map[string]int{"K": 2, "D": 1}, Depth: 200},
		},
	},
}
