package gse

// Properties: which harnesses decide which property, with their tier bounds.
var Properties = map[string]PropDef{
	"C17": {
		ID:         "C17",
		Exhaustive: true,
		Bounds:     "none inside the domain: all 4 / 16 / 64 mode tuples are one symbolic query each; spellings: every rune string of length 0..10 over code points < 128 except A-Z",
		Assumptions: []string{
			"strings.ToLower is stubbed as the identity on strings without upper-case ASCII letters (upper-case spellings are outside the claim)",
			"mode values are modelled as a symbolic selector over the real mode objects; pointer identity of mode values is not observed by the code under test",
		},
		Outside: "upper-case / non-ASCII spellings",
		Harnesses: []HarnessDef{
			{Name: "types.ZZC17Orders"},
			{Name: "types.ZZC17Spellings"},
			{Name: "types.ZZC17Names"},
		},
	},
	"C08": {
		ID:     "C08",
		Bounds: "quick: environments of K<=2 names with depth-1 bodies (10 constructors, 3 labels, 4 modes, legal shifts, alias chains) against query types S,T that are unit or a name, plus K=1 with S,T of depth<=1; thorough: K=3 with leaf queries, K=2 with depth-1 queries, K=1 with depth-2 queries. Unwinding assertion: call depth 200 / 300 loop iterations",
		Assumptions: []string{
			"environments are well-formed, contractive and mode-complete by construction (the documented precondition of EqualType); alias bodies name a lower-numbered definition",
			"reflect.TypeOf is modelled as the dynamic-type token of its operand; bytes.Buffer as a rope of string parts",
			"the reference verdict is bisimilarity of regular trees computed as a least fixed point (K*K+1 rounds) by harness code that is itself replayed natively",
		},
		Outside: "environments with more than 3 names or bodies deeper than 1; query types deeper than 2; map iteration order",
		Harnesses: []HarnessDef{
			{Name: "types.ZZC08Oracle", Quick: map[string]int{"K": 2, "D": 0}, Thorough: map[string]int{"K": 3, "D": 0}, Depth: 200},
			{Name: "types.ZZC08Oracle", Quick: map[string]int{"K": 1, "D": 1}, Thorough: map[string]int{"K": 2, "D": 1}, Depth: 200},
			{Name: "types.ZZC08Oracle", Quick: map[string]int{"K": 0, "D": 1}, Thorough: map[string]int{"K": 1, "D": 2}, Depth: 200},
			{Name: "types.ZZC08Laws", Quick: map[string]int{"K": 2, "D": 0}, Thorough: map[string]int{"K": 2, "D": 1}, Depth: 200},
		},
	},
	"C10": {
		ID:     "C10",
		Bounds: "quick: 1 definition of depth<=2, 2 definitions of depth 1, 3 definitions whose bodies are 1 or a bare name (all alias chains and cycles through three names, with undefined and duplicate names); names possibly duplicated or undefined, optional head annotation, 10 constructors, 3 labels, all shift mode pairs; thorough: same bounds (deeper products exceed the 30-minute budget)",
		Assumptions: []string{
			"input is what the grammar actions build: SessionTypeInitial trees converted with ConvertSessionTypeInitialToSessionType, then SetModalityTypeDef, then SanityChecksTypeDefinitions (the order of parser.expandProcesses + Typecheck)",
			"reference well-formedness = names defined exactly once, distinct branch labels, alias chains reach a constructor, modes uniform up to shifts with the inferred definition modes, shifts legal, head annotation = mode of the head",
			"fmt.Errorf results are opaque non-nil errors (only nil-ness is asserted)",
		},
		Outside: "more than 3 definitions, bodies deeper than 2, more than 2 branches per choice, upper-case mode words",
		Harnesses: []HarnessDef{
			{Name: "types.ZZC10WF", Quick: map[string]int{"K": 1, "D": 2}},
			{Name: "types.ZZC10WF", Quick: map[string]int{"K": 2, "D": 1}},
			{Name: "types.ZZC10WF", Quick: map[string]int{"K": 3, "D": 1, "LEAN": 2}},
			{Name: "types.ZZC10BadMode"},
		},
	},
	"C16": {
		ID:     "C16",
		Bounds: "quick: 1 definition of depth<=2, 3 alias-or-unit definitions; thorough: additionally 2 definitions of depth 1 (same generator as C10)",
		Assumptions: []string{
			"input is what the grammar actions build (SessionTypeInitial trees + optional head annotation), pushed through the real conversion and SetModalityTypeDef",
			"reference inference: annotation governs its type down to the next shift; a shift continuation takes the shift's source mode; a name carries its definition's mode; otherwise the mode fixed by the components, else replicable; asserted only where the reference accepts the definitions (ill-formed input: only C10's rejection matters)",
			"order stability is checked for the reversed declaration list",
		},
		Outside: "signature / cut-annotation types (AddMissingModalities) are exercised by the typing-rule harnesses; arbitrary permutations beyond reversal; more than 3 definitions",
		Harnesses: []HarnessDef{
			{Name: "types.ZZC16Infer", Quick: map[string]int{"K": 1, "D": 2}},
			{Name: "types.ZZC16Infer", Quick: map[string]int{"K": 3, "D": 1, "LEAN": 2}},
			{Name: "types.ZZC16Infer", Quick: map[string]int{"K": 2, "D": 1}, ThoroughOnly: true},
		},
	},
	"C11": {
		ID:     "C11",
		Bounds: "quick: every rune string of length <= 3 (each rune any Unicode scalar value) and length <= 5 over the representative alphabet {/ * a 1 space newline @ U+0000}; thorough: length <= 4 over all runes and <= 6 over the representative alphabet. Unwinding: 60 loop iterations per frame, call depth 60",
		Assumptions: []string{
			"strings.NewReader / bufio.Reader are modelled by the documented ReadRune / UnreadRune contract over a sequence of runes; UTF-8 decoding itself is not modelled (the input domain is rune sequences)",
			"bytes.Buffer modelled as a rope; positions (TokenPos) are computed by the real code",
		},
		Outside: "inputs longer than the bound; the LALR driver and semantic actions (gritsParse); memory consumption",
		Harnesses: []HarnessDef{
			{Name: "parser.ZZC11Lex", Quick: map[string]int{"N": 3}, Thorough: map[string]int{"N": 4}, Depth: 60, Loop: 60, MaxPaths: 3000000},
			{Name: "parser.ZZC11Lex", Quick: map[string]int{"N": 5, "ALPHA": 1}, Thorough: map[string]int{"N": 6, "ALPHA": 1}, Depth: 60, Loop: 60, MaxPaths: 3000000},
		},
	},
	"C12": {
		ID:     "C12",
		Bounds: "lexer: rune strings as C11 (quick length <= 3, thorough <= 4; representative alphabet <= 5 / <= 6); expandProcesses: statement lists of length <= 3 (quick) / <= 4 (thorough) of all five kinds with symbolic names",
		Assumptions: []string{
			"reference tokenizer transcribed from the README grammar (keywords, punctuation, comments, whitespace as the scanner defines it)",
			"spellings the scanner accepts but the README does not document (-o, %, drop, receive, forward, accept, ...) and block comments containing '*' are assumed away",
			"readers modelled as in C11",
		},
		Outside: "that the yacc `statements` actions append every statement (LALR driver not encoded); texts longer than the bound",
		Harnesses: []HarnessDef{
			{Name: "parser.ZZC12Lex", Quick: map[string]int{"N": 3}, Thorough: map[string]int{"N": 4}, Depth: 60, Loop: 60, MaxPaths: 3000000},
			{Name: "parser.ZZC12Lex", Quick: map[string]int{"N": 5, "ALPHA": 1}, Thorough: map[string]int{"N": 6, "ALPHA": 1}, Depth: 60, Loop: 60, MaxPaths: 3000000},
			{Name: "parser.ZZC12Expand", Quick: map[string]int{"N": 3}, Thorough: map[string]int{"N": 4}},
		},
	},
}
