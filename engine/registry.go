package gse

// Properties: which harnesses decide which property, with their tier bounds.
var Properties = map[string]PropDef{
	"C17": {
		ID:         "C17",
		Exhaustive: true,
		Bounds:     "none inside the domain: all 4 / 16 / 64 mode tuples are one symbolic query each; spellings: every rune string of length 0..10 over code points < 128 except A-Z",
		Assumptions: []string{
			"strings.ToLower is stubbed as the identity on strings without upper-case ASCII letters (upper-case spellings are outside the claim)",
			"mode values are modelled as a symbolic selector over the real mode objects; pointer identity of mode values is not observed by the code under test",
		},
		Outside: "upper-case / non-ASCII spellings",
		Harnesses: []HarnessDef{
			{Name: "types.ZZC17Orders"},
			{Name: "types.ZZC17Spellings"},
			{Name: "types.ZZC17Names"},
			{Name: "types.ZZC17Documented"},
		},
	},
	"C08": {
		ID:     "C08",
		Bounds: "quick: environments of K<=2 names with depth-1 bodies (10 constructors, 3 labels, 4 modes, legal shifts, alias chains) against query types S,T that are unit or a name, plus K=1 with S,T of depth<=1; thorough: K=3 with leaf queries, K=2 with depth-1 queries, K=1 with depth-2 queries. Unwinding assertion: call depth 200 / 300 loop iterations",
		Assumptions: []string{
			"environments are well-formed, contractive and mode-complete by construction (the documented precondition of EqualType); alias bodies name a lower-numbered definition",
			"reflect.TypeOf is modelled as the dynamic-type token of its operand; bytes.Buffer as a rope of string parts",
			"the reference verdict is bisimilarity of regular trees computed as a least fixed point (K*K+1 rounds) by harness code that is itself replayed natively",
		},
		Outside: "environments with more than 3 names or bodies deeper than 1; query types deeper than 2; map iteration order",
		Harnesses: []HarnessDef{
			{Name: "types.ZZC08Oracle", Quick: map[string]int{"K": 2, "D": 0}, Thorough: map[string]int{"K": 3, "D": 0}, Depth: 200},
			{Name: "types.ZZC08Oracle", Quick: map[string]int{"K": 1, "D": 1}, Thorough: map[string]int{"K": 2, "D": 1}, Depth: 200},
			{Name: "types.ZZC08Oracle", Quick: map[string]int{"K": 0, "D": 1}, Thorough: map[string]int{"K": 1, "D": 2}, Depth: 200},
			{Name: "types.ZZC08Laws", Quick: map[string]int{"K": 2, "D": 0}, Thorough: map[string]int{"K": 2, "D": 1}, Depth: 200},
			{Name: "types.ZZC08Cost", Quick: map[string]int{"N": 4}, Thorough: map[string]int{"N": 6}, Depth: 300, Note: "calls of innerEqualType on two equal cycles of N two-branch choices; natively the family is scaled to 64 definitions with a 3 s deadline"},
			{Name: "types.ZZC08Phases", Depth: 200, Note: "A = C^p(A), B = C^q(B) against each other at offsets i, j (out-of-phase recursion)"},
			{Name: "types.ZZC08Nesting", Quick: map[string]int{"MENU": 1}, Depth: 200, Note: "one name compared with a left- and a right-nested binary type inside one call (memo keys must keep them apart)"},
			{Name: "types.ZZC08Oracle", Quick: map[string]int{"K": 2, "D": 1, "DS": 1, "DT": 3, "MENU": 1}, Depth: 200, ThoroughOnly: true, Note: "left/right nested products against names: the printed memo key must keep them apart"},
		},
	},
	"C10": {
		ID:     "C10",
		Bounds: "quick: 1 definition of depth<=2, 2 definitions of depth 1, 3 definitions whose bodies are 1 or a bare name (all alias chains and cycles through three names, with undefined and duplicate names); names possibly duplicated or undefined, optional head annotation, 10 constructors, 3 labels, all shift mode pairs; thorough: same bounds (deeper products exceed the 30-minute budget)",
		Assumptions: []string{
			"input is what the grammar actions build: SessionTypeInitial trees converted with ConvertSessionTypeInitialToSessionType, then SetModalityTypeDef, then SanityChecksTypeDefinitions (the order of parser.expandProcesses + Typecheck)",
			"reference well-formedness = names defined exactly once, distinct branch labels, alias chains reach a constructor, modes uniform up to shifts with the inferred definition modes, shifts legal, head annotation = mode of the head",
			"fmt.Errorf results are opaque non-nil errors (only nil-ness is asserted)",
		},
		Outside: "more than 3 definitions, bodies deeper than 2, more than 2 branches per choice, upper-case mode words",
		Harnesses: []HarnessDef{
			{Name: "types.ZZC10WF", Quick: map[string]int{"K": 1, "D": 2}},
			{Name: "types.ZZC10WF", Quick: map[string]int{"K": 2, "D": 1}},
			{Name: "types.ZZC10WF", Quick: map[string]int{"K": 3, "D": 1, "LEAN": 2}},
			{Name: "types.ZZC10BadMode"},
		},
	},
	"C16": {
		ID:     "C16",
		Bounds: "quick: 1 definition of depth<=2, 3 alias-or-unit definitions; thorough: additionally 2 definitions of depth 1 (same generator as C10)",
		Assumptions: []string{
			"input is what the grammar actions build (SessionTypeInitial trees + optional head annotation), pushed through the real conversion and SetModalityTypeDef",
			"reference inference: annotation governs its type down to the next shift; a shift continuation takes the shift's source mode; a name carries its definition's mode; otherwise the mode fixed by the components, else replicable; asserted only where the reference accepts the definitions (ill-formed input: only C10's rejection matters)",
			"order stability is checked for the reversed declaration list",
		},
		Outside: "signature / cut-annotation types (AddMissingModalities) are exercised by the typing-rule harnesses; arbitrary permutations beyond reversal; more than 3 definitions",
		Harnesses: []HarnessDef{
			{Name: "types.ZZC16Infer", Quick: map[string]int{"K": 1, "D": 2}},
			{Name: "types.ZZC16Infer", Quick: map[string]int{"K": 3, "D": 1, "LEAN": 2}},
			{Name: "types.ZZC16Cycles", Note: "ping/pong/user/leaf: mutual recursion with the mode fixed in one place, all 24 declaration orders"},
			{Name: "types.ZZC16Infer", Quick: map[string]int{"K": 2, "D": 1}, ThoroughOnly: true},
			{Name: "types.ZZC16Infer", Quick: map[string]int{"K": 3, "D": 1, "LEAN": 3, "FIXNAMES": 1}, ThoroughOnly: true},
		},
	},
	"C11": {
		ID: "C11", AssertPrefix: "C11.",
		Bounds: "quick: every rune string of length <= 3 (each rune any Unicode scalar value) and length <= 5 over the representative alphabet {/ * a 1 space newline @ U+0000}; thorough: length <= 4 over all runes and <= 6 over the representative alphabet. Unwinding: 60 loop iterations per frame, call depth 60",
		Assumptions: []string{
			"strings.NewReader / bufio.Reader are modelled by the documented ReadRune / UnreadRune contract over a sequence of runes; UTF-8 decoding itself is not modelled (the input domain is rune sequences)",
			"bytes.Buffer modelled as a rope; positions (TokenPos) are computed by the real code",
		},
		Outside: "inputs longer than the bound (so: only texts too short to contain a complete declaration reach the LALR driver; its error paths and the one-slot error channel are covered, its accepting paths are not); memory consumption",
		Harnesses: []HarnessDef{
			{Name: "parser.ZZC11Lex", Quick: map[string]int{"N": 3}, Thorough: map[string]int{"N": 4}, Depth: 60, Loop: 60, MaxPaths: 3000000},
			{Name: "parser.ZZC11Lex", Quick: map[string]int{"N": 5, "ALPHA": 1}, Thorough: map[string]int{"N": 6, "ALPHA": 1}, Depth: 60, Loop: 60, MaxPaths: 3000000},
			{Name: "parser.ZZC11Parse", Quick: map[string]int{"N": 3}, Thorough: map[string]int{"N": 4}, Depth: 100, Loop: 100, MaxPaths: 3000000},
			{Name: "parser.ZZC11Parse", Quick: map[string]int{"N": 4, "ALPHA": 1}, Thorough: map[string]int{"N": 6, "ALPHA": 1}, Depth: 100, Loop: 100, MaxPaths: 3000000},
			{Name: "zzpub.ZZMenuVerdicts", Depth: 400, Loop: 3000, Note: "the 90 whole program texts of the menus (incl. types recursive through every constructor) parse within the unwinding bound"},
		},
	},
	"C12": {
		ID:     "C12",
		Bounds: "lexer: rune strings as C11 (quick length <= 3, thorough <= 4; representative alphabet <= 5 / <= 6; comment alphabet {/ * a} <= 7 / <= 9); expandProcesses: statement lists of length <= 3 (quick) / <= 4 (thorough) of all five kinds with symbolic names",
		Assumptions: []string{
			"reference tokenizer transcribed from the README grammar (keywords, punctuation, comments, whitespace as the scanner defines it)",
			"spellings the scanner accepts but the README does not document (-o, %, drop, receive, forward, accept, ...) and block comments containing '*' are assumed away",
			"readers modelled as in C11",
		},
		Outside: "that the yacc `statements` actions append every statement (LALR driver not encoded); texts longer than the bound",
		Harnesses: []HarnessDef{
			{Name: "parser.ZZC12Lex", Quick: map[string]int{"N": 3}, Thorough: map[string]int{"N": 4}, Depth: 60, Loop: 60, MaxPaths: 3000000},
			{Name: "parser.ZZC12Lex", Quick: map[string]int{"N": 5, "ALPHA": 1}, Thorough: map[string]int{"N": 6, "ALPHA": 1}, Depth: 60, Loop: 60, MaxPaths: 3000000},
			{Name: "parser.ZZC12Lex", Quick: map[string]int{"N": 7, "ALPHA": 2}, Thorough: map[string]int{"N": 9, "ALPHA": 2}, Depth: 60, Loop: 60, MaxPaths: 3000000, Note: "comment alphabet {/ * a}"},
			{Name: "parser.ZZC12Expand", Quick: map[string]int{"N": 3}, Thorough: map[string]int{"N": 4}},
		},
	},
	"C07": {
		ID: "C07", AssertPrefix: "C07.", Bounds: ruleBounds, Assumptions: ruleAssumptions,
		Outside:   "whole programs beyond one rule instance and its declaration context; forms nested deeper than one rule (covered inductively by probes); explicit polarities; more than 2 branches",
		Harnesses: append(ruleHarnesses(), HarnessDef{Name: "zzpub.ZZRunIllTyped", Depth: 400, Loop: 3000, Sched: true}, HarnessDef{Name: "zzpub.ZZMenuVerdicts", Depth: 400, Loop: 3000}),
	},
	"C05": {
		ID: "C05", AssertPrefix: "C05.", Bounds: ruleBounds, Assumptions: ruleAssumptions,
		Outside:   "the run-time use count of channels (C04/C01); contexts larger than 2 entries",
		Harnesses: append(ruleHarnesses(), HarnessDef{Name: "zzpub.ZZMenuVerdicts", Depth: 400, Loop: 3000}),
	},
	"C09": {
		ID: "C09", AssertPrefix: "C09.",
		Bounds:      ruleBounds + "; every name of every form carries an explicit polarity annotation with a symbolic value in {+, -} (forms without annotations are the C07 run of the same harnesses, which asserts the same no-panic obligation); worker protocol: programs assembled from 5 defect switches (<=3 at once) and an injected internal panic; accepted definition sets as C10 (2 definitions of depth 1)",
		Assumptions: append([]string{"goroutines are modelled run-to-completion (a spawned goroutine runs when the current one blocks, finishes, or the harness drains); unbuffered channels rendez-vous; no claim depends on other interleavings", "an internal failure is injected by a probe body that panics"}, ruleAssumptions...),
		Outside:     "running time bounds other than the unwinding limits (call depth 150, 300 loop iterations); schedules other than run-to-completion; panics inside the parser (C11)",
		Harnesses:   c09Harnesses(),
	},
	"C14": {
		ID: "C14", AssertPrefix: "C14.",
		Bounds:      "one binder layer (receive, case branch, split, shift, cut, plus wait/drop as non-binders) over an axiom with three name occurrences; identifiers symbolic over {a,b,c}, each occurrence / old / new uninitialised or one of two channels; 2 function definitions and 2 process declarations in both orders",
		Assumptions: []string{"names are built exactly as the grammar actions and the runtime build them (identifier + optional channel)", "declaration bodies are probes"},
		Outside:     "α-twin of the typing rules (verdict under injective renaming of identifiers, labels and type names), nested binders deeper than one layer, printed outcome of whole runs, call-site substitution of CallForm.Transition (C04)",
		Harnesses: []HarnessDef{
			{Name: "process.ZZC14Subst"},
			{Name: "process.ZZC14FreeNames"},
			{Name: "process.ZZC14FreeNamesRuntime"},
			{Name: "process.ZZC14Copy"},
			{Name: "process.ZZC14DeclOrder", Quick: map[string]int{"K": 1, "D": 1, "G": 0, "NP": 1, "PD": 0}},
			{Name: "zzpub.ZZMenuVerdicts", Depth: 400, Loop: 3000},
			{Name: "zzpub.ZZRunMenu", Quick: map[string]int{"MODES": 3, "RESPELLED": 1}, Depth: 400, Loop: 3000, MaxPaths: 3000000, Sched: true, Note: "whole runs of the respelled menu programs (binders that re-use the spelling of a consumed name) under every schedule"},
		},
	},
	"C18": {
		ID: "C18", Exhaustive: true,
		Pkgs:   []string{"grits/types", "grits/process", "grits/parser", "grits/cmd"},
		Bounds: "complete over the execution flags (typecheck, notypecheck, execute, noexecute, sync, async as symbolic booleans; verbosity symbolic in -1..5), 0..2 file arguments, and the outcomes of the parse and typecheck stages; benchmark / sample-benchmarks / webserver flags left at their defaults",
		Assumptions: []string{
			"C18-only stubs: flag.Bool/Int/Uint return cells holding the symbolic values, flag.Parse/Args are replaced; parser.ParseFile and process.Typecheck answer nondeterministically (ok / error) and are logged; process.InitializeProcesses is logged as EXEC; log.Fatal and os.Exit end the path as EXIT",
			"natively (replay) the same harness builds os.Args, a fresh flag set and real program files (syntax error / type error / a program printing a label) and observes exit vs return and the printed label",
		},
		Outside:   "the flag package's own parsing of spellings, panics inside the real stages (C09, C11), benchmark and web-server modes, the exact text of diagnostics",
		Harnesses: []HarnessDef{{Name: "cmd.ZZC18Cli", Optional: []string{"C18.noexecute-anywhere-never-runs", "C18.runs-only-checked-programs"}}, {Name: "process.ZZC09Slow", Note: "the gate the CLI relies on: process.Typecheck reports the verdict however long checking takes"}},
	},
	"C15": {
		ID: "C15", AssertPrefix: "C15.",
		Bounds:      "types: every constructor (1, name, *, -*, +{} and &{} with 1 and 2 branches, both shifts) over children of every constructor to depth 2, identifiers = unconstrained string variables, labels and modes symbolic; terms: all 14 forms with `self` / identifier names and continuations to depth 1 (thorough: depth 2 with identifier names)",
		Assumptions: []string{"opaque identifiers are z3 String variables constrained to [a-z]+; natively replayed with fixed identifiers", "comparison is on the Grits token sequence of the two texts (whitespace-insensitive)", "reference templates follow parser.y: %right TIMES LOLLI UP_ARROW DOWN_ARROW on one precedence level"},
		Outside:     "StringWithModality (its [mode] markers are not grammar), explicit polarity and type annotations on names (omitted by the printers by design), parsing the printed text with the real parser (structural induction instead)",
		Harnesses: []HarnessDef{
			{Name: "types.ZZC15Types", Quick: map[string]int{"D": 2}},
			{Name: "process.ZZC15Forms", Quick: map[string]int{"D": 1}, Thorough: map[string]int{"D": 2, "NAMEPICK": 0}},
		},
	},
	"C04": {
		ID: "C04", AssertPrefix: "C04.",
		Bounds:      "one transition step of one process in polarised asynchronous mode: 14 form/side combinations (send, receive, select, case with 2 branches, close, wait, cast, shift, cut, print) x every incoming data rule (SND..BRA) x labels over {l,m,n}; the duplication step for 2 providers over 3 body kinds; positive forward relaying each of SND/CLS/SEL/CST, negative forward, split and drop; the call step for 4 provider-passing conventions",
		Assumptions: []string{"channels are FIFO queues of the capacity CreateFreshChannel asks for; a spawned goroutine runs after the step (run-to-completion)", "continuations are probes that record the process state they are resumed in and the substitutions applied to them", "context.Background() stands for the run's context (cancellation is outside the step claims); heartbeat channel given capacity 4096; logging off"},
		Outside:     "PARTIAL: whole runs, orders across processes, causal order of prints, recursion; control messages (FWD, GC) arriving at receivers, droppable positive forwards, the non-polarised transition functions",
		Harnesses:   []HarnessDef{{Name: "process.ZZC04Step"}, {Name: "process.ZZC04Dup"}, {Name: "process.ZZC04Forward"}, {Name: "process.ZZC04Control"}, {Name: "process.ZZC13CallCopies"}, runMenuHarness(), structuralHarnesses()[0], structuralHarnesses()[1]},
	},
	"C01": {
		ID: "C01", AssertPrefix: "C01.",
		Bounds:      "one principal cut: channel type A of depth<=1 over K<=1 type names (quick K=0, thorough K=1), provider form P among 7, client form Q among 7, both accepted by the real typecheckForm (probes accepting), labels over {l,m,n}; executed in polarised asynchronous and synchronous mode; the same cut with one forward `fwd self c` between the two sides, typed by the real forward rule (asynchronous mode), which also exercises the FWD control message at a receiving provider",
		Assumptions: []string{"the hypothesis is the real typechecker's verdict (vn.Assume(accepted)); the forms are then rebuilt over initialised channels and run on the engine's goroutine/channel model", "run-to-completion scheduling: the receiver blocks, the sender runs, the receiver resumes"},
		Outside:     "PARTIAL: closed programs with more than one cut, all schedules, GOMAXPROCS, monitor, the non-polarised mode, more than one forward, duplication / drop between the two sides",
		Harnesses:   []HarnessDef{{Name: "process.ZZC01Cut", Quick: map[string]int{"K": 0}, Thorough: map[string]int{"K": 1}}, {Name: "process.ZZC01CutFwd", Quick: map[string]int{"K": 0, "D": 1}, Thorough: map[string]int{"K": 1}}, runMenuHarness(), {Name: "zzpub.ZZRunIllTyped", Depth: 400, Loop: 3000, Sched: true}, structuralHarnesses()[0], structuralHarnesses()[1]},
	},
	"C13": {
		ID: "C13", AssertPrefix: "C13.", RaceReplay: true,
		Bounds:      "two sufficient conditions only: (1) every pair of the steps {CreateFreshChannel, SpawnThenTransition, terminate, ProcessCount, DeadProcessCount} executed as two threads on one RuntimeEnvironment touches the three shared counters only atomically (access log of the executor); (2) a call works on a private copy of the function body",
		Assumptions: []string{"the executor logs every load/store/atomic operation on the watched cells with the thread that performed it; a conflict is a pair from different threads on one cell with a write and a non-atomic member", "a counterexample is confirmed by running the same two steps as real goroutines under `go1.26.8 test -race`"},
		Outside:     "PARTIAL: the dynamic property itself (all programs x schedules), channel internals, the monitor and web server, AST ownership after cut / duplication (only the call step is checked)",
		Harnesses:   []HarnessDef{{Name: "process.ZZC13Counters"}, {Name: "process.ZZC13CallCopies"}, runMenuHeavyHarness(), runMenuMonitorHarness(), structuralHarnesses()[0], structuralHarnesses()[1]},
	},
	"C02": {
		ID: "C02", AssertPrefix: "C02.",
		Bounds:      runBounds,
		Assumptions: runAssumptions,
		Outside:     "PARTIAL: programs outside the menu, runs that do not terminate, the heartbeat timer, GOMAXPROCS (true parallelism is covered only through the interleaving semantics), the non-polarised mode (the property speaks about the polarised modes)",
		Harnesses:   []HarnessDef{{Name: "process.ZZC04Control"}, runMenuHarness(), runMenuUnreducedHarness(), structuralHarnesses()[0], structuralHarnesses()[1], structuralPairHarness(), {Name: "zzpub.ZZRunIllTyped", Depth: 400, Loop: 3000, Sched: true}},
	},
	"C03": {
		ID: "C03", AssertPrefix: "C03.",
		Bounds:      runBounds,
		Assumptions: runAssumptions,
		Outside:     "PARTIAL: programs outside the menu; monitor on; for programs with contraction the non-polarised mode is not compared (as the property states)",
		Harnesses:   []HarnessDef{runMenuHarness(), runMenuUnreducedHarness(), structuralHarnesses()[0], structuralHarnesses()[1]},
	},
	"C19": {
		ID: "C19", AssertPrefix: "C19.", ReinitGlobals: true,
		Bounds:      "histories of length 2 of sequential kernels: ParseString on a text of <=2 runes after a text of <=1 rune (thorough <=3 after <=2); Typecheck on a program built from 5 defect switches after another such program (with its worker drained); EqualType over an arbitrary environment of 2 names after a query over a different environment with the same names",
		Assumptions: []string{"in this check package-level state of the Grits packages may be written by the code under test and is rebuilt (package init re-run) at the start of every symbolic path, so a leak shows up as a changed result of the second run; in every other check a store to package-level state after init ends the path as GLOBALWRITE (inconclusive)"},
		Outside:     "PARTIAL: executing programs (leftover goroutines, channels, timers of finished runs), the web server and benchmark drivers, histories longer than 2",
		Harnesses: []HarnessDef{
			{Name: "parser.ZZC19ParseTwice", Quick: map[string]int{"N1": 1, "N2": 2}, Thorough: map[string]int{"N1": 2, "N2": 2}, Depth: 100, Loop: 100, MaxPaths: 3000000},
			{Name: "process.ZZC19TypecheckTwice"},
			{Name: "types.ZZC19EqualAfterHistory", Quick: map[string]int{"K": 2, "D": 0}, Thorough: map[string]int{"K": 2, "D": 1}, Depth: 200},
			{Name: "zzpub.ZZParseTwice", Depth: 400, Loop: 3000, Note: "7 first texts (rejected after complete statements, rejected early, empty, accepted) x 4 second texts"},
			{Name: "zzpub.ZZRunTwice", Depth: 400, Loop: 3000, MaxPaths: 3000000, Sched: true, Note: "two whole runs in one heap: 7 first programs (accepted, rejected, unparseable) x 5 second programs x polarised modes, every schedule of both"},
		},
	},
	"C06": {
		ID: "C06", AssertPrefix: "C06.", Bounds: ruleBounds, Assumptions: ruleAssumptions,
		Outside:   "shift legality inside type definitions is decided under C10; judgements nested deeper than one rule follow inductively from the probes",
		Harnesses: []HarnessDef{ruleHarnesses()[9], ruleHarnesses()[10], ruleHarnesses()[13], ruleHarnesses()[14], ruleHarnesses()[15], {Name: "zzpub.ZZMenuVerdicts", Depth: 400, Loop: 3000}},
	},
}

// runMenuHarness: whole runs of the menu programs (harness/zzpub/run.go) under every schedule.
func runMenuHarness() HarnessDef {
	return HarnessDef{Name: "zzpub.ZZRunMenu", Quick: map[string]int{"MODES": 3}, Thorough: map[string]int{"DEEP": 1}, Depth: 400, Loop: 3000, MaxPaths: 6000000, Sched: true}
}

// runMenuUnreducedHarness (thorough only): the light programs once more WITHOUT the sleep-set
// reduction, as a cross-check of the reduction itself.
func runMenuUnreducedHarness() HarnessDef {
	h := runMenuHarness()
	h.Quick = map[string]int{"MODES": 3, "LIGHT": 1, "NOSLEEP": 1, "LAST": 13}
	h.ThoroughOnly = true
	h.Note = "no partial-order reduction (every interleaving at channel operations), programs m01-m14 without m11"
	return h
}

// structuralHarnesses: enumerated structural programs (harness/zzpub/run.go, ZZRunStructural):
// every sequence of L actions among split / drop / use / forward-through-a-cut applied to a
// replicable channel, for a positive and for a negative provider.
func structuralHarnesses() []HarnessDef {
	mk := func(fam int) HarnessDef {
		return HarnessDef{Name: "zzpub.ZZRunStructural", Quick: map[string]int{"L": 2, "FAMILY": fam}, Thorough: map[string]int{"L": 3}, Depth: 400, Loop: 3000, MaxPaths: 20000000, Sched: true,
			Note: "all structural action sequences of length L over a replicable channel, three modes, every schedule"}
	}
	return []HarnessDef{mk(0), mk(1)}
}

// structuralPairHarness (thorough only): the same enumeration for a provider that sends a pair of
// two spawned children (duplication cascades); L = 2 already takes 150 k paths.
func structuralPairHarness() HarnessDef {
	return HarnessDef{Name: "zzpub.ZZRunStructural", Quick: map[string]int{"L": 2, "FAMILY": 2}, Depth: 400, Loop: 3000, MaxPaths: 20000000, Sched: true, ThoroughOnly: true,
		Note: "provider = pair of two spawned children, all structural action sequences of length 2"}
}

// runMenuHeavyHarness: the heavy programs without a monitor (C13 runs the light ones with a
// monitor attached, which subsumes running them without).
func runMenuHeavyHarness() HarnessDef {
	h := runMenuHarness()
	h.Quick = map[string]int{"MODES": 3, "HEAVY": 1}
	h.Note = "the heavy programs, monitor off"
	return h
}

func runMenuMonitorHarness() HarnessDef {
	h := runMenuHarness()
	h.Quick = map[string]int{"MODES": 3, "MONITOR": 1, "LIGHT": 1}
	h.Thorough = map[string]int{"LIGHT": 1} // (with a monitor the heavy programs take hours)
	h.Note = "monitor attached; the order in which updates of different processes reach the monitor is treated as irrelevant"
	return h
}

var runBounds = "enumerated structural programs: every sequence of L (quick 2, thorough 3) actions among split / drop / use / forward-through-a-cut applied by a client to a replicable channel and the names that result, for a positive unit provider and for a negative server, in the three modes under every interleaving; whole runs: each of the 46 menu programs of harness/zzpub/run.go (2-6 processes; m38 only in the thorough tier; close/wait, pair send/receive in both polarities, both choices, both shifts, cut with and without call, recursion to depth 2, positive and negative forwards and chains of two, split of a positive and of a negative provider, multi-name declaration, drop of a positive / negative / nested provider) in the three execution modes, under EVERY interleaving of the process goroutines at their channel operations (explored with sleep-set reduction; the numbers of complete and pruned interleavings are in the evidence)"

var runAssumptions = []string{
	"schedule choices are explored by forking the executor at every visible operation (channel send / receive / select / close); they are not encoded into the solver. The code between two visible operations of one goroutine is executed atomically, which is sound for race-free code; the happens-before monitor (C13) checks that assumption on every explored path",
	"channels are FIFO queues with Go's capacity / rendez-vous / close semantics; sync/atomic operations are invisible (they touch debug counters only); time.Sleep is a no-op",
	"the heartbeat receiver is replaced by its contract: it cancels the run exactly at quiescence (no goroutine can make a step); the 50 ms timer itself is outside the claim; the heartbeat channel is a sink",
	"context.WithCancel is modelled by a Done channel closed by cancel",
	"programs are concrete texts run through the real parser and typechecker on every path; logging is off; the monitor is off unless stated",
}

func ruleHarnesses() []HarnessDef {
	q := func(extra map[string]int) map[string]int {
		m := map[string]int{"K": 1, "D": 1, "GD": 0, "G": 2}
		for k, v := range extra {
			m[k] = v
		}
		return m
	}
	t := map[string]int{"K": 2}
	return []HarnessDef{
		{Name: "process.ZZRuleSend", Quick: q(nil), Thorough: t},
		{Name: "process.ZZRuleReceive", Quick: q(nil), Thorough: t},
		{Name: "process.ZZRuleSelect", Quick: q(nil), Thorough: t},
		{Name: "process.ZZRuleCase", Quick: q(nil), Thorough: t},
		{Name: "process.ZZRuleClose", Quick: q(nil), Thorough: t},
		{Name: "process.ZZRuleWait", Quick: q(nil), Thorough: t},
		{Name: "process.ZZRuleForward", Quick: q(nil), Thorough: t},
		{Name: "process.ZZRuleDrop", Quick: q(nil), Thorough: t},
		{Name: "process.ZZRuleSplit", Quick: q(nil), Thorough: t},
		{Name: "process.ZZRuleCast", Quick: q(nil), Thorough: t},
		{Name: "process.ZZRuleShift", Quick: q(nil), Thorough: t},
		{Name: "process.ZZRulePrint", Quick: q(nil), Thorough: t},
		{Name: "process.ZZRuleCall", Quick: q(map[string]int{"PD": 0, "NA": 1, "NP": 1}), Thorough: map[string]int{"NA": 2, "NP": 2}},
		{Name: "process.ZZRuleCut", Quick: q(map[string]int{"PD": 0, "G": 1, "NP": 1, "AD": 0}), Thorough: map[string]int{"G": 2, "AD": 1}},
		{Name: "process.ZZDeclFunction", Quick: q(map[string]int{"NP": 2, "G": 0}), Thorough: t},
		{Name: "process.ZZDeclProcess", Quick: q(map[string]int{"G": 0}), Thorough: t},
	}
}

var ruleBounds = "per rule: type environment of K names with depth-1 bodies (quick K=1, thorough K=2), Γ of 0..2 entries (symbolic identifiers over {a,b,c,d}, types = unit or a name), provider type of depth<=1, provider = self or a symbolic shadow name, every name of the form symbolic (identifier and self-ness), labels over {l,m,n}, case with 1..2 branches, calls with <=2 (thorough 3) arguments against <=1 (2) parameters, cut bodies in {fwd self u, close self, f(u..)}; continuations are probes with a nondeterministic verdict"

var ruleAssumptions = []string{
	"type environments are well-formed by construction (C10 decides that only such environments are admitted); types are mode-complete",
	"binders written `self`, binders named like the current provider in rules that do not check it (split, ⊕L, cut), re-use of a live identifier by a cut, and explicit polarity annotations are assumed away (unobservable at program level or undocumented; DESIGN.md §6)",
	"continuations are probes: harness forms that record the judgement (copy of Γ, shadow provider, provider type) and answer with a nondeterministic verdict, so one rule instance stands for every program containing it",
	"reference premises: DESIGN.md Appendix A, with type agreement decided by the reference bisimilarity of C08",
	"fmt/log output is stubbed; errors are opaque non-nil values",
}

func c09Harnesses() []HarnessDef {
	var hs []HarnessDef
	for _, h := range ruleHarnesses() {
		q := map[string]int{}
		for k, v := range h.Quick {
			q[k] = v
		}
		q["POL"] = 2
		h.Quick = q
		h.Thorough = map[string]int{"K": 2}
		hs = append(hs, h)
	}
	hs = append(hs, HarnessDef{Name: "process.ZZC09Worker"})
	hs = append(hs, HarnessDef{Name: "process.ZZC09Slow", Note: "one body takes 2.5 s to check (virtual time under gse, real time natively)"})
	hs = append(hs, HarnessDef{Name: "zzpub.ZZMenuVerdicts", Depth: 400, Loop: 3000})
	hs = append(hs, HarnessDef{Name: "types.ZZC08Phases", Depth: 200})
	hs = append(hs, HarnessDef{Name: "types.ZZC08Cost", Quick: map[string]int{"N": 4}, Thorough: map[string]int{"N": 6}, Depth: 300})
	hs = append(hs, HarnessDef{Name: "zzpub.ZZC09Program", Depth: 300, Loop: 2000})
	hs = append(hs, HarnessDef{Name: "types.ZZC09Accepted", Quick: map[string]int{"K": 2, "D": 1}, Depth: 200})
	hs = append(hs, HarnessDef{Name: "types.ZZC09Accepted", Quick: map[string]int{"K": 1, "D": 2}, Depth: 200})
	return hs
}
