package gse

// Properties: which harnesses decide which property, with their tier bounds.
var Properties = map[string]PropDef{
	"C17": {
		ID:         "C17",
		Exhaustive: true,
		Bounds:     "none inside the domain: all 4 / 16 / 64 mode tuples are one symbolic query each; spellings: every rune string of length 0..10 over code points < 128 except A-Z",
		Assumptions: []string{
			"strings.ToLower is stubbed as the identity on strings without upper-case ASCII letters (upper-case spellings are outside the claim)",
			"mode values are modelled as a symbolic selector over the real mode objects; pointer identity of mode values is not observed by the code under test",
		},
		Outside: "upper-case / non-ASCII spellings",
		Harnesses: []HarnessDef{
			{Name: "types.ZZC17Orders"},
			{Name: "types.ZZC17Spellings"},
			{Name: "types.ZZC17Names"},
		},
	},
}
