package gse

// One live `z3 -in` per worker. Terms are sent as named definitions (define-fun) so that
// printing is linear in DAG size. Scopes: one (push) per explored path.

import (
	"bufio"
	"fmt"
	"io"
	"os"
	"os/exec"
	"strconv"
	"strings"
	"time"
)

type Solver struct {
	cmd      *exec.Cmd
	in       io.WriteCloser
	out      *bufio.Reader
	bin      string
	args     []string
	defined  map[int]bool // term IDs defined in the current scopes
	declVar  map[string]bool
	scopeT   [][]int    // per open scope: term IDs defined there
	scopeV   [][]string // per open scope: variables declared there
	tempOpen bool       // a temporary query scope is still open (model available)
	Queries  int
	Time     time.Duration
	Errors   []string
	log      io.Writer
	timeout  int // ms per query
	depth    int
}

func NewSolver(bin string, timeoutMs int) (*Solver, error) {
	s := &Solver{bin: bin, timeout: timeoutMs}
	if d := os.Getenv("GSE_SMTLOG"); d != "" {
		f, _ := os.CreateTemp(d, "smt-*.smt2")
		s.log = f
	}
	if strings.Contains(bin, "cvc5") {
		s.args = []string{"--incremental", "--lang=smt2", "--produce-models", fmt.Sprintf("--tlimit-per=%d", timeoutMs)}
	} else {
		s.args = []string{"-in", "-memory:4000"}
	}
	if err := s.start(); err != nil {
		return nil, err
	}
	return s, nil
}

func (s *Solver) start() error {
	s.cmd = exec.Command(s.bin, s.args...)
	in, err := s.cmd.StdinPipe()
	if err != nil {
		return err
	}
	out, err := s.cmd.StdoutPipe()
	if err != nil {
		return err
	}
	s.cmd.Stderr = nil
	if err := s.cmd.Start(); err != nil {
		return err
	}
	s.in = in
	s.out = bufio.NewReaderSize(out, 1<<16)
	s.defined = map[int]bool{}
	s.declVar = map[string]bool{}
	s.scopeT, s.scopeV = nil, nil
	s.tempOpen = false
	s.depth = 0
	if !strings.Contains(s.bin, "cvc5") {
		s.send("(set-option :produce-models true)")
		s.send(fmt.Sprintf("(set-option :timeout %d)", s.timeout))
	} else {
		s.send("(set-logic ALL)")
	}
	return nil
}

func (s *Solver) Close() {
	if s.cmd != nil {
		s.in.Close()
		done := make(chan struct{})
		go func() { s.cmd.Wait(); close(done) }()
		select {
		case <-done:
		case <-time.After(2 * time.Second):
			s.cmd.Process.Kill()
		}
		s.cmd = nil
	}
}

func (s *Solver) send(line string) {
	if s.log != nil {
		fmt.Fprintln(s.log, line)
	}
	io.WriteString(s.in, line)
	io.WriteString(s.in, "\n")
}

func (s *Solver) readLine() string {
	line, err := s.out.ReadString('\n')
	if err != nil {
		return "(error \"solver died: " + err.Error() + "\")"
	}
	return strings.TrimSpace(line)
}

// readSexp reads one complete s-expression (possibly multi-line) from the solver.
func (s *Solver) readSexp() string {
	var sb strings.Builder
	depth := 0
	started := false
	inStr := false
	for {
		line, err := s.out.ReadString('\n')
		if err != nil {
			return "(error \"solver died\")"
		}
		for i := 0; i < len(line); i++ {
			c := line[i]
			if inStr {
				if c == '"' {
					inStr = false
				}
				continue
			}
			switch c {
			case '"':
				inStr = true
				started = true
			case '(':
				depth++
				started = true
			case ')':
				depth--
			default:
				if c != ' ' && c != '\n' && c != '\t' && c != '\r' {
					started = true
				}
			}
		}
		sb.WriteString(line)
		if started && depth <= 0 && !inStr {
			return strings.TrimSpace(sb.String())
		}
	}
}

func (s *Solver) push() {
	s.send("(push 1)")
	s.depth++
	s.scopeT = append(s.scopeT, nil)
	s.scopeV = append(s.scopeV, nil)
}

func (s *Solver) pop() {
	s.send("(pop 1)")
	s.depth--
	n := len(s.scopeT) - 1
	for _, id := range s.scopeT[n] {
		delete(s.defined, id)
	}
	for _, v := range s.scopeV[n] {
		delete(s.declVar, v)
	}
	s.scopeT = s.scopeT[:n]
	s.scopeV = s.scopeV[:n]
}

func (s *Solver) closeTemp() {
	if s.tempOpen {
		s.tempOpen = false
		s.pop()
	}
}

// Push opens the path scope.
func (s *Solver) Push() {
	s.closeTemp()
	s.push()
}

// PopAll leaves the path scope: definitions vanish.
func (s *Solver) PopAll() {
	s.tempOpen = false
	for s.depth > 0 {
		s.pop()
	}
}

func (s *Solver) noteT(id int) {
	s.defined[id] = true
	if n := len(s.scopeT); n > 0 {
		s.scopeT[n-1] = append(s.scopeT[n-1], id)
	}
}

func (s *Solver) noteV(v string) {
	s.declVar[v] = true
	if n := len(s.scopeV); n > 0 {
		s.scopeV[n-1] = append(s.scopeV[n-1], v)
	}
}

// ref returns the SMT text referring to t, emitting definitions as needed.
func (s *Solver) ref(t *Term) string {
	switch t.Op {
	case OConst:
		return constLit(t)
	case OVar:
		if !s.declVar[t.S] {
			s.noteV(t.S)
			s.send(fmt.Sprintf("(declare-const %s %s)", t.S, sortName(t.Sort, t.W)))
		}
		return t.S
	}
	if s.defined[t.ID] {
		return "t" + strconv.Itoa(t.ID)
	}
	// iterative post-order to avoid deep recursion
	type fr struct {
		t *Term
		i int
	}
	stack := []fr{{t, 0}}
	for len(stack) > 0 {
		f := &stack[len(stack)-1]
		if f.i < len(f.t.Args) {
			a := f.t.Args[f.i]
			f.i++
			if a.Op != OConst && a.Op != OVar && !s.defined[a.ID] {
				stack = append(stack, fr{a, 0})
			} else if a.Op == OVar {
				s.ref(a)
			}
			continue
		}
		cur := f.t
		stack = stack[:len(stack)-1]
		if s.defined[cur.ID] {
			continue
		}
		s.noteT(cur.ID)
		// a definition is a fresh constant constrained to equal its body: z3 4.8.12 expands
		// nullary define-fun macros into trees (measured: 15k definitions -> timeout vs 0.2 s)
		s.send(fmt.Sprintf("(declare-const t%d %s)(assert (= t%d %s))", cur.ID, sortName(cur.Sort, cur.W), cur.ID, s.body(cur)))
	}
	return "t" + strconv.Itoa(t.ID)
}

func (s *Solver) argRef(a *Term) string {
	switch a.Op {
	case OConst:
		return constLit(a)
	case OVar:
		return a.S
	}
	return "t" + strconv.Itoa(a.ID)
}

func (s *Solver) body(t *Term) string {
	var sb strings.Builder
	switch t.Op {
	case OZext:
		fmt.Fprintf(&sb, "((_ zero_extend %d) %s)", t.W-t.Args[0].W, s.argRef(t.Args[0]))
		return sb.String()
	case OSext:
		fmt.Fprintf(&sb, "((_ sign_extend %d) %s)", t.W-t.Args[0].W, s.argRef(t.Args[0]))
		return sb.String()
	case OTrunc:
		fmt.Fprintf(&sb, "((_ extract %d 0) %s)", t.W-1, s.argRef(t.Args[0]))
		return sb.String()
	case OStrIsIdent:
		fmt.Fprintf(&sb, "(str.in_re %s (re.+ (re.range \"a\" \"z\")))", s.argRef(t.Args[0]))
		return sb.String()
	case OStrLen:
		fmt.Fprintf(&sb, "((_ int2bv 64) (str.len %s))", s.argRef(t.Args[0]))
		return sb.String()
	}
	sb.WriteByte('(')
	sb.WriteString(opName[t.Op])
	for _, a := range t.Args {
		sb.WriteByte(' ')
		sb.WriteString(s.argRef(a))
	}
	sb.WriteByte(')')
	return sb.String()
}

func (s *Solver) Assert(t *Term) {
	s.closeTemp()
	r := s.ref(t)
	s.send("(assert " + r + ")")
}

type SatResult int

const (
	Unsat SatResult = iota
	Sat
	Unknown
)

func (r SatResult) String() string { return [...]string{"unsat", "sat", "unknown"}[r] }

// CheckWith checks satisfiability of the current assertions plus extra (temporary).
func (s *Solver) CheckWith(extra ...*Term) SatResult {
	t0 := time.Now()
	defer func() { s.Time += time.Since(t0); s.Queries++ }()
	s.closeTemp()
	s.push()
	s.tempOpen = true
	for _, e := range extra {
		s.send("(assert " + s.ref(e) + ")")
	}
	s.send("(check-sat)")
	for {
		l := s.readLine()
		switch {
		case l == "sat":
			return Sat
		case l == "unsat":
			return Unsat
		case l == "unknown" || l == "timeout":
			return Unknown
		case strings.HasPrefix(l, "(error"):
			s.Errors = append(s.Errors, l)
			if strings.Contains(l, "solver died") {
				s.restart()
				return Unknown
			}
			// keep reading: z3 still prints a verdict after an error line; it is not trusted
			v := s.readLine()
			_ = v
			return Unknown
		case l == "":
			continue
		default:
			s.Errors = append(s.Errors, "unexpected: "+l)
			return Unknown
		}
	}
}

func (s *Solver) restart() {
	if s.cmd != nil {
		s.cmd.Process.Kill()
		s.cmd.Wait()
	}
	s.start()
}

// Model values after a Sat CheckWith; temporaries of check-sat-assuming still hold in the model.
func (s *Solver) GetValues(ts []*Term) ([]ModelVal, bool) {
	if len(ts) == 0 {
		return nil, true
	}
	refs := make([]string, len(ts))
	for i, t := range ts {
		refs[i] = s.ref(t)
	}
	s.send("(get-value (" + strings.Join(refs, " ") + "))")
	resp := s.readSexp()
	if strings.HasPrefix(resp, "(error") {
		s.Errors = append(s.Errors, resp)
		return nil, false
	}
	sx, _, ok := parseSexp(resp, 0)
	if !ok || sx.atom != "" || len(sx.list) != len(ts) {
		s.Errors = append(s.Errors, "bad get-value response: "+resp)
		return nil, false
	}
	out := make([]ModelVal, len(ts))
	for i, pair := range sx.list {
		if len(pair.list) != 2 {
			return nil, false
		}
		mv, ok := decodeVal(pair.list[1], ts[i])
		if !ok {
			s.Errors = append(s.Errors, "bad value: "+resp)
			return nil, false
		}
		out[i] = mv
	}
	return out, true
}

type ModelVal struct {
	Sort Sort
	B    bool
	I    uint64
	W    uint8
	S    string
}

func (m ModelVal) String() string {
	switch m.Sort {
	case SBool:
		return strconv.FormatBool(m.B)
	case SBV:
		return strconv.FormatInt(sext64(m.I, m.W), 10)
	}
	return strconv.Quote(m.S)
}

type sexp struct {
	atom  string
	list  []sexp
	isStr bool
}

func parseSexp(s string, i int) (sexp, int, bool) {
	for i < len(s) && (s[i] == ' ' || s[i] == '\n' || s[i] == '\t' || s[i] == '\r') {
		i++
	}
	if i >= len(s) {
		return sexp{}, i, false
	}
	if s[i] == '(' {
		i++
		var l []sexp
		for {
			for i < len(s) && (s[i] == ' ' || s[i] == '\n' || s[i] == '\t' || s[i] == '\r') {
				i++
			}
			if i >= len(s) {
				return sexp{}, i, false
			}
			if s[i] == ')' {
				return sexp{list: l}, i + 1, true
			}
			e, j, ok := parseSexp(s, i)
			if !ok {
				return sexp{}, j, false
			}
			l = append(l, e)
			i = j
		}
	}
	if s[i] == '"' {
		j := i + 1
		var sb strings.Builder
		for j < len(s) {
			if s[j] == '"' {
				if j+1 < len(s) && s[j+1] == '"' {
					sb.WriteByte('"')
					j += 2
					continue
				}
				break
			}
			sb.WriteByte(s[j])
			j++
		}
		return sexp{atom: sb.String(), isStr: true}, j + 1, true
	}
	j := i
	for j < len(s) && s[j] != ' ' && s[j] != ')' && s[j] != '(' && s[j] != '\n' {
		j++
	}
	return sexp{atom: s[i:j]}, j, true
}

func unescapeSMT(s string) string {
	// handles \u{hex} and \x hex forms
	var sb strings.Builder
	for i := 0; i < len(s); i++ {
		if s[i] == '\\' && i+2 < len(s) && s[i+1] == 'u' && s[i+2] == '{' {
			j := strings.IndexByte(s[i:], '}')
			if j > 0 {
				v, err := strconv.ParseUint(s[i+3:i+j], 16, 32)
				if err == nil {
					sb.WriteRune(rune(v))
					i += j
					continue
				}
			}
		}
		if s[i] == '\\' && i+3 < len(s) && s[i+1] == 'x' {
			v, err := strconv.ParseUint(s[i+2:i+4], 16, 8)
			if err == nil {
				sb.WriteByte(byte(v))
				i += 3
				continue
			}
		}
		sb.WriteByte(s[i])
	}
	return sb.String()
}

func decodeVal(v sexp, t *Term) (ModelVal, bool) {
	switch t.Sort {
	case SBool:
		if v.atom == "true" {
			return ModelVal{Sort: SBool, B: true}, true
		}
		if v.atom == "false" {
			return ModelVal{Sort: SBool, B: false}, true
		}
	case SBV:
		if strings.HasPrefix(v.atom, "#x") {
			n, err := strconv.ParseUint(v.atom[2:], 16, 64)
			return ModelVal{Sort: SBV, I: n, W: t.W}, err == nil
		}
		if strings.HasPrefix(v.atom, "#b") {
			n, err := strconv.ParseUint(v.atom[2:], 2, 64)
			return ModelVal{Sort: SBV, I: n, W: t.W}, err == nil
		}
		if len(v.list) == 3 && v.list[0].atom == "_" && strings.HasPrefix(v.list[1].atom, "bv") {
			n, err := strconv.ParseUint(v.list[1].atom[2:], 10, 64)
			return ModelVal{Sort: SBV, I: n, W: t.W}, err == nil
		}
	case SStr:
		if v.isStr {
			return ModelVal{Sort: SStr, S: unescapeSMT(v.atom)}, true
		}
	}
	return ModelVal{}, false
}
