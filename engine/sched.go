package gse

// Deliberately minimal goroutine / channel model: run-to-completion sequentialisation.
// A spawned goroutine runs when the current one blocks, finishes, or calls vn.Drain().
// Exactly one interpreted goroutine runs at a time (baton passing between host goroutines).

import (
	"fmt"
	"go/token"
	"go/types"
	"sync"

	"golang.org/x/tools/go/ssa"
)

type resumeMsg struct{ abort bool }

type goroutine struct {
	id       int
	fn       Value
	args     []Value
	started  bool
	done     bool
	waiting  bool // host goroutine parked on resume
	ready    func() bool
	draining bool
	resume   chan resumeMsg
	fr       *frame
	isMain   bool
	depth    int
	// sched mode
	pending *schedOp
	result  *schedResult
	parked  bool
	parkSeq int
	vc      vclock
}

type chanItem struct {
	v     Value
	taken *bool
	vc    vclock
}

func (m *Machine) spawn(fn Value, args []Value) {
	g := &goroutine{id: len(m.gor), fn: fn, args: args, resume: make(chan resumeMsg, 1)}
	m.gor = append(m.gor, g)
	m.path.events = append(m.path.events, fmt.Sprintf("GO g%d", g.id))
}

func (m *Machine) pickNext(self *goroutine) *goroutine {
	var drain *goroutine
	for _, g := range m.gor {
		if g == self || g.done {
			continue
		}
		if !g.started {
			return g
		}
		if g.waiting && g.ready != nil && g.ready() {
			if g.draining {
				if drain == nil {
					drain = g
				}
				continue
			}
			return g
		}
	}
	return drain
}

var hostWG sync.WaitGroup

func (m *Machine) switchTo(next *goroutine) {
	m.cur = next
	if !next.started {
		next.started = true
		hostWG.Add(1)
		m.path.hosts.Add(1)
		go m.runGoroutine(next)
		return
	}
	next.waiting = false
	next.resume <- resumeMsg{}
}

func (m *Machine) runGoroutine(g *goroutine) {
	defer hostWG.Done()
	defer m.path.hosts.Done()
	defer func() {
		r := recover()
		g.done = true
		if r != nil {
			if pe, ok := r.(pathEnd); ok {
				if pe.kind == outAbort {
					return // path is being torn down
				}
				m.path.pendingEnd = &pe
			} else if tp, ok := r.(targetPanic); ok {
				pe := pathEnd{OutPanic, "in goroutine: " + m.panicText(tp)}
				m.path.pendingEnd = &pe
			} else {
				pe := pathEnd{OutInconclusive, fmt.Sprintf("engine error in goroutine: %v", r)}
				m.path.pendingEnd = &pe
			}
			m.wakeMainAbort()
			return
		}
		// finished normally: hand the baton on
		for !m.schedOn() && m.pickNext(g) == nil && m.advanceTime() {
		}
		if m.schedOn() {
			g.pending = nil
			func() {
				defer func() {
					if r := recover(); r != nil {
						if pe, ok := r.(pathEnd); ok {
							m.path.pendingEnd = &pe
						} else {
							pe := pathEnd{OutInconclusive, fmt.Sprintf("engine error in scheduler: %v", r)}
							m.path.pendingEnd = &pe
						}
						m.wakeMainAbort()
					}
				}()
				m.schedGoroutineDone(g)
			}()
			return
		}
		next := m.pickNext(g)
		if next == nil {
			pe := pathEnd{OutBlocked, "all goroutines are asleep"}
			m.path.pendingEnd = &pe
			m.wakeMainAbort()
			return
		}
		m.switchTo(next)
	}()
	m.call(nil, token.NoPos, g.fn, g.args)
}

const outAbort Outcome = 100

func (m *Machine) wakeMainAbort() {
	main := m.gor[0]
	m.cur = main
	if main.waiting {
		main.waiting = false
		main.resume <- resumeMsg{abort: true}
	}
}

// block parks the current goroutine until ready() holds.
// advanceTime moves virtual time to the earliest pending deadline (nothing else can run).
func (m *Machine) advanceTime() bool {
	p := m.path
	best := int64(-1)
	bi := -1
	for i, d := range p.deadlines {
		if d > p.now && (best < 0 || d < best) {
			best, bi = d, i
		}
	}
	if bi < 0 {
		return false
	}
	p.now = best
	p.deadlines = append(p.deadlines[:bi], p.deadlines[bi+1:]...)
	return true
}

// timerTick delivers the tick of a timer channel whose time has come.
func (m *Machine) timerTick(ch *Chan) {
	if ch != nil && ch.readyAt > 0 && !ch.fired && m.path.now >= ch.readyAt {
		ch.fired = true
		ch.Buf = append(ch.Buf, chanItem{v: Struct{m.ts.BV(0, 64), m.ts.BV(0, 64), Ptr(nil)}})
	}
}

func (m *Machine) block(ready func() bool, what string) {
	g := m.cur
	if m.noForkDepth > 0 {
		m.unsupported("blocking operation inside a pure summary run")
	}
	g.ready = ready
	next := m.pickNext(g)
	for next == nil && !m.schedOn() && m.advanceTime() {
		// nobody can run: time passes until the next sleep ends or timer fires
		if ready() {
			g.ready = nil
			return
		}
		next = m.pickNext(g)
	}
	if next == nil {
		if g.draining {
			g.ready = nil
			return
		}
		m.endPathFrom(g, pathEnd{OutBlocked, "deadlock: " + what})
	}
	g.waiting = true
	m.switchTo(next)
	msg := <-g.resume
	if msg.abort {
		if g.isMain && m.path.pendingEnd != nil {
			panic(*m.path.pendingEnd)
		}
		panic(pathEnd{outAbort, ""})
	}
	g.ready = nil
}

func (m *Machine) endPathFrom(g *goroutine, pe pathEnd) {
	panic(pe)
}

// drain lets every other runnable goroutine run until none can make progress.
func (m *Machine) drain() {
	g := m.cur
	for {
		next := m.pickNext(g)
		if next == nil {
			return
		}
		g.draining = true
		m.block(func() bool { return true }, "drain")
		g.draining = false
	}
}

// killGoroutines tears down all parked host goroutines at the end of a path.
func (m *Machine) killGoroutines() {
	for _, g := range m.gor {
		if g.started && !g.done && g.waiting && !g.isMain {
			g.waiting = false
			g.resume <- resumeMsg{abort: true}
		}
	}
	m.path.hosts.Wait()
}

// ---- channels ----

func (m *Machine) chanSend(ch *Chan, v Value) {
	if ch == nil {
		m.block(func() bool { return false }, "send on nil channel")
	}
	if ch.Closed {
		m.throwRuntimeText("send on closed channel")
	}
	m.path.events = append(m.path.events, fmt.Sprintf("SEND c%d", ch.ID))
	if ch.Cap > 0 {
		if len(ch.Buf) >= ch.Cap {
			m.block(func() bool { return len(ch.Buf) < ch.Cap || ch.Closed }, fmt.Sprintf("send on full channel c%d", ch.ID))
			if ch.Closed {
				m.throwRuntimeText("send on closed channel")
			}
		}
		ch.Buf = append(ch.Buf, chanItem{v: v})
		return
	}
	taken := new(bool)
	ch.Buf = append(ch.Buf, chanItem{v: v, taken: taken})
	m.block(func() bool { return *taken }, fmt.Sprintf("send on unbuffered channel c%d with no receiver", ch.ID))
}

func (m *Machine) throwRuntimeText(msg string) {
	panic(targetPanic{v: Iface{T: m.P.runtimeErrT, V: mkStr(msg)}, msg: msg})
}

func (m *Machine) chanRecv(ch *Chan, commaOk bool, t types.Type) Value {
	if ch == nil {
		m.block(func() bool { return false }, "receive on nil channel")
	}
	m.timerTick(ch)
	if len(ch.Buf) == 0 && !ch.Closed {
		m.block(func() bool { m.timerTick(ch); return len(ch.Buf) > 0 || ch.Closed }, fmt.Sprintf("receive on empty channel c%d", ch.ID))
	}
	var elemT types.Type
	if commaOk {
		elemT = t.(*types.Tuple).At(0).Type()
	} else {
		elemT = t
	}
	if len(ch.Buf) == 0 {
		z := m.zero(elemT)
		if commaOk {
			return Tuple{z, m.ts.False}
		}
		return z
	}
	it := ch.Buf[0].(chanItem)
	ch.Buf = ch.Buf[1:]
	if it.taken != nil {
		*it.taken = true
	}
	m.path.events = append(m.path.events, fmt.Sprintf("RECV c%d", ch.ID))
	if commaOk {
		return Tuple{it.v, m.ts.True}
	}
	return it.v
}

func (m *Machine) chanClose(ch *Chan) {
	if ch == nil {
		m.throwRuntimeText("close of nil channel")
	}
	if ch.Closed {
		m.throwRuntimeText("close of closed channel")
	}
	ch.Closed = true
}

func (m *Machine) selectOp(fr *frame, instr *ssa.Select) Value {
	type st struct {
		ch   *Chan
		send bool
		v    Value
	}
	states := make([]st, len(instr.States))
	for i, s := range instr.States {
		ch, _ := fr.get(s.Chan).(*Chan)
		states[i] = st{ch: ch, send: s.Dir == types.SendOnly}
		if states[i].send {
			states[i].v = fr.get(s.Send)
		}
	}
	readyIdx := func() []int {
		var r []int
		for i, s := range states {
			if s.ch == nil {
				continue
			}
			m.timerTick(s.ch)
			if s.send {
				if s.ch.Closed || (s.ch.Cap > 0 && len(s.ch.Buf) < s.ch.Cap) {
					r = append(r, i)
				}
				// unbuffered send inside select: only ready when a receiver waits; not modelled -> never ready
			} else if len(s.ch.Buf) > 0 || s.ch.Closed {
				r = append(r, i)
			}
		}
		return r
	}
	rd := readyIdx()
	chosen := -1
	if len(rd) == 0 {
		if instr.Blocking {
			m.block(func() bool { return len(readyIdx()) > 0 }, "select with no ready case")
			rd = readyIdx()
		}
	}
	if len(rd) > 0 {
		chosen = rd[len(rd)-1]
		for _, i := range rd[:len(rd)-1] {
			if m.freeBranch() {
				chosen = i
				break
			}
		}
	}
	r := Tuple{m.ts.BV(uint64(int64(chosen)), 64), m.ts.False}
	recvOk := false
	var recvVals []Value
	for i, s := range instr.States {
		if s.Dir == types.RecvOnly {
			elemT := s.Chan.Type().Underlying().(*types.Chan).Elem()
			if i == chosen {
				v := m.chanRecv(states[i].ch, true, types.NewTuple(types.NewVar(0, nil, "", elemT), types.NewVar(0, nil, "", types.Typ[types.Bool]))).(Tuple)
				recvVals = append(recvVals, v[0])
				recvOk = v[1].(*Term).B
			} else {
				recvVals = append(recvVals, m.zero(elemT))
			}
		} else if i == chosen {
			m.chanSend(states[i].ch, states[i].v)
		}
	}
	r[1] = m.ts.Bool(recvOk)
	r = append(r, recvVals...)
	return r
}
