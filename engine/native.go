package gse

// Native replay: the harness packages are compiled with the real toolchain (go test -c with an
// overlay that injects harness + vn files into /repo) and solver models are run through them.

import (
	"bytes"
	"encoding/json"
	"fmt"
	"os"
	"os/exec"
	"path/filepath"
	"strconv"
	"strings"
	"time"
)

type NativeItem struct {
	ID      string
	Harness string
	Vector  []int64
}

type NativeResult struct {
	Race    bool   // the race detector reported a data race during this process run
	Outcome string // ok | assume | assertfail | panic | hang | crash | exit | vector-exhausted | noharness
	Detail  string
	Obs     []string
	Reach   []string
	Expect  []int
}

type Native struct {
	P        *Program
	Dir      string
	bins     map[string]string
	env      []string
	BuildS   float64
	Params   string
	Race     bool // build with the race detector (go1.26.8; the default toolchain has no race runtime)
	ExtraEnv []string
	BaseEnv  []string
}

func NewNative(P *Program) (*Native, error) {
	dir, err := os.MkdirTemp("", "gse-native-")
	if err != nil {
		return nil, err
	}
	n := &Native{P: P, Dir: dir, bins: map[string]string{}}
	n.env = append(os.Environ(), "GOFLAGS=-mod=mod", "GOPROXY=off", "GOSUMDB=off", "GOTOOLCHAIN=local")
	return n, nil
}

func (n *Native) Close() { os.RemoveAll(n.Dir) }

// pkgOfHarness: "types.ZZFoo" -> "types"
func pkgOfHarness(h string) string { return h[:strings.LastIndex(h, ".")] }

func (n *Native) build(pkg string) (string, error) {
	if b, ok := n.bins[pkg]; ok {
		return b, nil
	}
	t0 := time.Now()
	repl := map[string]string{}
	for v, r := range n.P.Overlay {
		repl[v] = r
	}
	// package clause of the target package
	pkgName := filepath.Base(pkg)
	if sp := n.P.Pkgs["grits/"+pkg]; sp != nil {
		pkgName = sp.Pkg.Name()
	}
	testFile := filepath.Join(n.Dir, "native_"+strings.ReplaceAll(pkg, "/", "_")+"_test.go")
	src := fmt.Sprintf("package %s\n\nimport (\n\t\"testing\"\n\tvn \"grits/zzvn\"\n)\n\nfunc TestZZVerifNative(t *testing.T) { vn.NativeMain() }\n", pkgName)
	if err := os.WriteFile(testFile, []byte(src), 0644); err != nil {
		return "", err
	}
	repl[filepath.Join(n.P.RepoDir, pkg, "zz_verif_native_test.go")] = testFile
	ovb, _ := json.Marshal(map[string]interface{}{"Replace": repl})
	ovf := filepath.Join(n.Dir, "overlay_"+strings.ReplaceAll(pkg, "/", "_")+".json")
	os.WriteFile(ovf, ovb, 0644)
	bin := filepath.Join(n.Dir, strings.ReplaceAll(pkg, "/", "_")+".test")
	gobin, extra := "go", []string{}
	if n.Race {
		gobin, extra = "go1.26.8", []string{"-race"}
		bin += ".race"
	}
	argv := append([]string{"test", "-c", "-vet=off"}, extra...)
	argv = append(argv, "-overlay", ovf, "-o", bin, "./"+pkg)
	cmd := exec.Command(gobin, argv...)
	cmd.Dir = n.P.RepoDir
	cmd.Env = n.env
	out, err := cmd.CombinedOutput()
	if err != nil {
		return "", fmt.Errorf("native build of %s failed: %v\n%s", pkg, err, out)
	}
	n.bins[pkg] = bin
	n.BuildS += time.Since(t0).Seconds()
	return bin, nil
}

// Run replays items (all of one package) and returns results by ID.
func (n *Native) Run(pkg string, items []NativeItem, timeoutMs int) (map[string]*NativeResult, error) {
	res := map[string]*NativeResult{}
	if len(items) == 0 {
		return res, nil
	}
	bin, err := n.build(pkg)
	if err != nil {
		return nil, err
	}
	var sb strings.Builder
	for _, it := range items {
		vs := make([]string, len(it.Vector))
		for i, v := range it.Vector {
			vs[i] = strconv.FormatInt(v, 10)
		}
		fmt.Fprintf(&sb, "%s %s %s\n", it.ID, it.Harness, strings.Join(vs, ","))
	}
	vf := filepath.Join(n.Dir, fmt.Sprintf("vectors_%d.txt", time.Now().UnixNano()))
	os.WriteFile(vf, []byte(sb.String()), 0644)
	defer os.Remove(vf)
	start := 0
	for start < len(items) {
		cmd := exec.Command(bin, "-test.run", "^TestZZVerifNative$", "-test.timeout", "0")
		cmd.Dir = filepath.Join(n.P.RepoDir, pkg)
		if _, err := os.Stat(cmd.Dir); err != nil {
			cmd.Dir = n.P.RepoDir // virtual harness package
		}
		cmd.Env = append(n.env, "VN_VECTORS="+vf, "VN_START="+strconv.Itoa(start), "VN_TIMEOUT_MS="+strconv.Itoa(timeoutMs), "VN_PARAMS="+n.Params, "VN_ASSERT_PREFIX="+n.P.AssertPrefix)
		cmd.Env = append(cmd.Env, n.BaseEnv...)
		cmd.Env = append(cmd.Env, n.ExtraEnv...)
		var stdout, stderr bytes.Buffer
		cmd.Stdout = &stdout
		cmd.Stderr = &stderr
		done := make(chan error, 1)
		if err := cmd.Start(); err != nil {
			return nil, err
		}
		go func() { done <- cmd.Wait() }()
		overall := time.Duration(timeoutMs)*time.Millisecond*time.Duration(len(items)-start+1) + 30*time.Second
		select {
		case <-done:
		case <-time.After(overall):
			cmd.Process.Kill()
			<-done
		}
		// parse
		var cur *NativeResult
		curID := ""
		curIdx := -1
		lastEnded := start - 1
		for _, line := range strings.Split(stdout.String(), "\n") {
			f := strings.SplitN(line, " ", 3)
			switch f[0] {
			case "BEGIN":
				if len(f) >= 3 {
					curID = f[1]
					curIdx, _ = strconv.Atoi(f[2])
					cur = &NativeResult{}
				}
			case "OBS":
				if cur != nil {
					cur.Obs = append(cur.Obs, strings.TrimPrefix(line, "OBS "))
				}
			case "REACH":
				if cur != nil && len(f) >= 2 {
					cur.Reach = append(cur.Reach, f[1])
				}
			case "EXPECT":
				if cur != nil && len(f) >= 2 {
					k, _ := strconv.Atoi(f[1])
					cur.Expect = append(cur.Expect, k)
				}
			case "ASSERT-FAIL":
			case "END":
				if cur != nil && len(f) >= 2 && f[1] == curID {
					rest := ""
					if len(f) == 3 {
						rest = f[2]
					}
					parts := strings.SplitN(rest, " ", 2)
					cur.Outcome = parts[0]
					if len(parts) > 1 {
						cur.Detail = parts[1]
					}
					res[curID] = cur
					lastEnded = curIdx
					cur = nil
				}
			}
		}
		if strings.Contains(stderr.String(), "WARNING: DATA RACE") {
			for _, r := range res {
				r.Race = true
			}
			if cur != nil {
				cur.Race = true
			}
		}
		if cur != nil {
			// process died inside this vector
			se := stderr.String()
			switch {
			case strings.Contains(se, "stack overflow") || strings.Contains(se, "goroutine stack exceeds"):
				cur.Outcome, cur.Detail = "crash", "stack overflow"
			case strings.Contains(se, "all goroutines are asleep"):
				cur.Outcome, cur.Detail = "crash", "deadlock"
			case strings.Contains(se, "fatal error"):
				cur.Outcome, cur.Detail = "crash", firstLineWith(se, "fatal error")
			case strings.Contains(se, "panic:"):
				cur.Outcome, cur.Detail = "panic", firstLineWith(se, "panic:")
			default:
				cur.Outcome, cur.Detail = "exit", strings.TrimSpace(lastLines(se, 2))
			}
			res[curID] = cur
			lastEnded = curIdx
		}
		if lastEnded < start {
			// no progress at all: avoid spinning
			return res, fmt.Errorf("native runner made no progress: %s", lastLines(stderr.String(), 5))
		}
		start = lastEnded + 1
	}
	return res, nil
}

func firstLineWith(s, sub string) string {
	for _, l := range strings.Split(s, "\n") {
		if strings.Contains(l, sub) {
			return strings.TrimSpace(l)
		}
	}
	return ""
}

func lastLines(s string, n int) string {
	ls := strings.Split(strings.TrimSpace(s), "\n")
	if len(ls) > n {
		ls = ls[len(ls)-n:]
	}
	return strings.Join(ls, " | ")
}
