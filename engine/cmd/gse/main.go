package main

import (
	"encoding/json"
	"flag"
	"fmt"
	"os"
	"runtime/debug"
	"runtime/pprof"
	"strings"
	"time"

	"gse"
)

func main() {
	debug.SetGCPercent(400)
	if len(os.Args) < 2 {
		fmt.Println("usage: gse run|check|replay ...")
		os.Exit(2)
	}
	switch os.Args[1] {
	case "check":
		fs := flag.NewFlagSet("check", flag.ExitOnError)
		prop := fs.String("property", "", "")
		tier := fs.String("tier", os.Getenv("VERIF_TIER"), "")
		workers := fs.Int("workers", 16, "")
		repo := fs.String("repo", "/repo", "")
		verif := fs.String("verif", "/verif", "")
		fs.Parse(os.Args[2:])
		if *tier == "" {
			*tier = "quick"
		}
		var seed int64
		fmt.Sscan(os.Getenv("VERIF_SEED"), &seed)
		os.Exit(gse.RunCheck(gse.CheckConfig{Repo: *repo, Verif: *verif, Property: *prop, Tier: *tier, Seed: seed, Workers: *workers}))
	case "replay":
		os.Exit(gse.Replay("/repo", "/verif", os.Args[2]))
	case "run":
		fs := flag.NewFlagSet("run", flag.ExitOnError)
		workers := fs.Int("workers", 8, "")
		trace := fs.Bool("trace", false, "")
		maxp := fs.Int("maxpaths", 100000, "")
		depth := fs.Int("depth", 200, "")
		loop := fs.Int("loop", 300, "")
		params := fs.String("p", "", "k=v,...")
		repoDir := fs.String("repo", "/repo", "")
		prof := fs.String("cpuprofile", "", "")
		fs.Parse(os.Args[2:])
		if *prof != "" {
			f, _ := os.Create(*prof)
			pprof.StartCPUProfile(f)
			defer pprof.StopCPUProfile()
			go func() { time.Sleep(40 * time.Second); pprof.StopCPUProfile(); os.Exit(0) }()
		}
		t0 := time.Now()
		pk := []string{"grits/types", "grits/process", "grits/parser"}
		for _, name := range fs.Args() {
			if strings.HasPrefix(name, "cmd.") {
				pk = append(pk, "grits/cmd")
			}
		}
		P, err := gse.Load(*repoDir, "/verif/harness", pk...)
		if err != nil {
			fmt.Println(err)
			os.Exit(2)
		}
		P.OpenFindings = map[string]bool{}
		P.Params = map[string]int{}
		for _, kv := range strings.Split(*params, ",") {
			if i := strings.IndexByte(kv, '='); i > 0 {
				var v int
				fmt.Sscan(kv[i+1:], &v)
				P.Params[kv[:i]] = v
			}
		}
		fmt.Fprintf(os.Stderr, "loaded in %.1fs\n", time.Since(t0).Seconds())
		gse.Trace = *trace
		for _, name := range fs.Args() {
			i := strings.LastIndex(name, ".")
			fn := P.Harness("grits/"+name[:i], name[i+1:])
			if fn == nil {
				fmt.Println("no such harness", name)
				os.Exit(2)
			}
			h := &gse.HarnessSpec{Name: name, Fn: fn, Limits: gse.Limits{Depth: *depth, Loop: *loop, Instrs: 20000000}, MaxPaths: *maxp}
			r := gse.Explore(P, h, *workers, 10, 20)
			r.Funcs = nil
			b, _ := json.MarshalIndent(r, "", " ")
			fmt.Println(string(b))
		}
	}
}
