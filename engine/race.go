package gse

// Happens-before monitor for sched mode (C13): every interpreted load / store through a pointer
// and every map operation is checked against vector clocks built from the synchronisation the
// Go memory model defines: go statements, channel send -> receive (and k-th receive -> (k+cap)-th
// send), close -> receive of the zero value, unbuffered rendez-vous, sync/atomic operations.
// A pair of accesses to one cell from two goroutines, one of them a write, neither ordered
// before the other, and not both atomic, is a data race — on *every* schedule that performs
// the two accesses, not only on the explored one, because happens-before does not depend on
// the observed order.

import (
	"fmt"
	"os"

	"golang.org/x/tools/go/ssa"
)

type vclock []int

func (v vclock) get(i int) int {
	if i < len(v) {
		return v[i]
	}
	return 0
}

func (v vclock) copyVC() vclock { return append(vclock(nil), v...) }

func joinVC(a, b vclock) vclock {
	if len(b) > len(a) {
		a = append(a, make(vclock, len(b)-len(a))...)
	}
	for i, x := range b {
		if x > a[i] {
			a[i] = x
		}
	}
	return a
}

func (g *goroutine) tick() {
	for len(g.vc) <= g.id {
		g.vc = append(g.vc, 0)
	}
	g.vc[g.id]++
}

func (m *Machine) vcFork(parent, child *goroutine) {
	if !m.path.raceOn {
		return
	}
	parent.tick()
	child.vc = parent.vc.copyVC()
	child.tick()
	parent.tick()
}

func (m *Machine) vcSend(g *goroutine, ch *Chan) vclock {
	if !m.path.raceOn {
		return nil
	}
	// the k-th receive is synchronised before the completion of the (k+cap)-th send
	if ch.Cap > 0 && ch.sends >= ch.Cap && ch.sends-ch.Cap < len(ch.recvVCs) {
		g.vc = joinVC(g.vc, ch.recvVCs[ch.sends-ch.Cap])
	}
	ch.sends++
	g.tick()
	v := g.vc.copyVC()
	g.tick()
	return v
}

func (m *Machine) vcRecv(g *goroutine, ch *Chan, item vclock) {
	if !m.path.raceOn {
		return
	}
	g.vc = joinVC(g.vc, item)
	g.tick()
	ch.recvVCs = append(ch.recvVCs, g.vc.copyVC())
	g.tick()
}

func (m *Machine) vcRendezvous(s, r *goroutine) {
	if !m.path.raceOn {
		return
	}
	s.tick()
	r.tick()
	j := joinVC(s.vc.copyVC(), r.vc)
	s.vc = j.copyVC()
	r.vc = j
	s.tick()
	r.tick()
}

func (m *Machine) vcClose(g *goroutine, ch *Chan) {
	if !m.path.raceOn {
		return
	}
	g.tick()
	ch.closeVC = g.vc.copyVC()
	g.tick()
}

func (m *Machine) vcRecvClosed(g *goroutine, ch *Chan) {
	if !m.path.raceOn {
		return
	}
	g.vc = joinVC(g.vc, ch.closeVC)
	g.tick()
}

// vcAtomic: an atomic operation on cell p acquires and releases the cell's clock.
func (m *Machine) vcAtomic(p Ptr) {
	if m.path == nil || !m.path.raceOn {
		return
	}
	g := m.cur
	sh := m.shadowOf(p)
	g.vc = joinVC(g.vc, sh.atomicVC)
	g.tick()
	sh.atomicVC = g.vc.copyVC()
	g.tick()
	sh.atomicUsed = true
}

type shadow struct {
	wg, wc     int // last write epoch (goroutine, clock); wc == 0: never written
	wWhere     *ssa.Function
	reads      map[int]int // goroutine -> clock of its last read
	rWhere     map[int]*ssa.Function
	atomicVC   vclock
	atomicUsed bool
}

func (m *Machine) shadowOf(p interface{}) *shadow {
	if m.path.shadows == nil {
		m.path.shadows = map[interface{}]*shadow{}
	}
	sh := m.path.shadows[p]
	if sh == nil {
		sh = &shadow{}
		m.path.shadows[p] = sh
	}
	return sh
}

// raceAccess checks one plain (non-atomic) access of the current goroutine.
func (m *Machine) raceAccess(p Ptr, write bool) {
	if m.path == nil || !m.path.raceOn || p == nil {
		return
	}
	m.raceCell(p, write)
	switch v := (*p).(type) {
	case Struct:
		for i := range v {
			m.raceAccess(&v[i], write)
		}
	case Array:
		for i := range v {
			m.raceAccess(&v[i], write)
		}
	}
}

func (m *Machine) raceCell(key interface{}, write bool) {
	g := m.cur
	if len(g.vc) <= g.id {
		g.tick()
	}
	sh := m.shadowOf(key)
	now := g.vc[g.id]
	var where *ssa.Function
	if g.fr != nil {
		where = g.fr.fn
	}
	report := func(kind string, og int, ow *ssa.Function) {
		msg := fmt.Sprintf("%s: g%d at %v / g%d at %v", kind, og, ow, g.id, where)
		if len(m.path.races) < 8 {
			m.path.races = append(m.path.races, msg)
			if os.Getenv("GSE_RACEDEBUG") != "" {
				fmt.Fprintf(os.Stderr, "RACE %s (cell %T)\n", msg, key)
			}
		}
	}
	if sh.atomicUsed {
		// a plain access to a cell that is also accessed atomically: ordered only if the
		// atomic clock is already known to this goroutine
		for i, c := range sh.atomicVC {
			if i != g.id && c > g.vc.get(i) {
				report("plain access beside atomic access", i, nil)
				break
			}
		}
	}
	if sh.wc != 0 && sh.wg != g.id && sh.wc > g.vc.get(sh.wg) {
		k := "read after unordered write"
		if write {
			k = "write after unordered write"
		}
		report(k, sh.wg, sh.wWhere)
	}
	if write {
		for rg, rc := range sh.reads {
			if rg != g.id && rc > g.vc.get(rg) {
				report("write after unordered read", rg, sh.rWhere[rg])
			}
		}
		sh.wg, sh.wc, sh.wWhere = g.id, now, where
		sh.reads, sh.rWhere = nil, nil
	} else {
		if sh.reads == nil {
			sh.reads = map[int]int{}
			sh.rWhere = map[int]*ssa.Function{}
		}
		if sh.reads[g.id] != now {
			sh.reads[g.id] = now
			sh.rWhere[g.id] = where
		}
	}
}
