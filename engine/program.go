package gse

import (
	"fmt"
	"go/token"
	"go/types"
	"os"
	"path/filepath"
	"sort"
	"strings"

	"golang.org/x/tools/go/packages"
	"golang.org/x/tools/go/ssa"
	"golang.org/x/tools/go/ssa/ssautil"
)

// Program is the shared, read-only SSA program (built from /repo's working tree + harness overlay).
type Program struct {
	Prog             *ssa.Program
	Pkgs             map[string]*ssa.Package
	RepoDir          string
	HarnessDir       string
	Overlay          map[string]string // virtual path -> real path
	runtimeErrT      types.Type
	errorStringT     types.Type
	SolverBin        string
	SolverTimeoutMs  int
	WantKnownVectors bool
	OpenFindings     map[string]bool
	initOrder        []*ssa.Package
	PureTypes        func(types.Type) bool
	ReinitGlobals    bool     // package-level state is rebuilt for every path and may be written (C19)
	BrokenHarness    []string // harness packages dropped because they no longer compile
	Params           map[string]int
	AssertPrefix     string
}

var gritsPkgs = []string{"grits/types", "grits/process", "grits/parser", "grits/cmd", "grits/position", "grits/zzpub"}

// BuildOverlay maps every harness file to its virtual location inside /repo.
func BuildOverlay(repo, harness string) (map[string]string, error) {
	ov := map[string]string{}
	err := filepath.Walk(harness, func(path string, info os.FileInfo, err error) error {
		if err != nil {
			return err
		}
		if info.IsDir() || !strings.HasSuffix(path, ".go") {
			return nil
		}
		rel, _ := filepath.Rel(harness, path)
		dir, file := filepath.Split(rel)
		virt := filepath.Join(repo, dir, "zz_verif_"+file)
		ov[virt] = path
		return nil
	})
	return ov, err
}

func Load(repo, harness string, want ...string) (*Program, error) {
	ov, err := BuildOverlay(repo, harness)
	if err != nil {
		return nil, err
	}
	if len(want) == 0 {
		want = []string{"grits/types", "grits/process", "grits/parser"}
	}
	var pkgs []*packages.Package
	var broken []string
	for attempt := 0; attempt < 3; attempt++ {
		overlay := map[string][]byte{}
		for v, r := range ov {
			if strings.HasSuffix(r, "_test.go") {
				continue
			}
			b, err := os.ReadFile(r)
			if err != nil {
				return nil, err
			}
			overlay[v] = b
		}
		cfg := &packages.Config{
			Mode:    packages.LoadAllSyntax,
			Dir:     repo,
			Overlay: overlay,
			Env:     append(os.Environ(), "GOFLAGS=-mod=mod", "GOPROXY=off", "GOSUMDB=off", "GOTOOLCHAIN=local"),
		}
		pats := append([]string{}, want...)
		pats = append(pats, "grits/zzvn")
		if _, err := os.Stat(filepath.Join(harness, "zzpub")); err == nil {
			pats = append(pats, "grits/zzpub")
		}
		pkgs, err = packages.Load(cfg, pats...)
		if err != nil {
			return nil, err
		}
		var errs []string
		badDirs := map[string]bool{}
		packages.Visit(pkgs, nil, func(p *packages.Package) {
			for _, e := range p.Errors {
				errs = append(errs, e.Error())
				// an error located in a harness file: the harness of that package no longer
				// compiles against the tree (an internal signature changed)
				if i := strings.Index(e.Pos, "zz_verif_"); i > 0 {
					badDirs[filepath.Dir(e.Pos[:i+1])] = true
				}
			}
		})
		if len(errs) == 0 {
			break
		}
		if len(badDirs) == 0 || attempt == 2 {
			return nil, fmt.Errorf("load errors:\n%s", strings.Join(errs, "\n"))
		}
		// drop the harness files of the affected package directories and try again
		for v := range ov {
			if badDirs[filepath.Dir(v)] {
				delete(ov, v)
			}
		}
		for d := range badDirs {
			rel, _ := filepath.Rel(repo, d)
			broken = append(broken, rel+": "+firstLineWith(strings.Join(errs, "\n"), "zz_verif_"))
		}
	}
	prog, spkgs := ssautil.AllPackages(pkgs, ssa.InstantiateGenerics|ssa.SanityCheckFunctions&0)
	prog.Build()
	P := &Program{Prog: prog, Pkgs: map[string]*ssa.Package{}, RepoDir: repo, HarnessDir: harness, Overlay: ov, BrokenHarness: broken}
	for _, sp := range spkgs {
		if sp != nil {
			P.Pkgs[sp.Pkg.Path()] = sp
		}
	}
	for _, sp := range prog.AllPackages() {
		if _, ok := P.Pkgs[sp.Pkg.Path()]; !ok {
			P.Pkgs[sp.Pkg.Path()] = sp
		}
	}
	if rt := prog.ImportedPackage("runtime"); rt != nil {
		P.runtimeErrT = rt.Type("errorString").Object().Type()
	}
	if ep := prog.ImportedPackage("errors"); ep != nil {
		P.errorStringT = types.NewPointer(ep.Type("errorString").Object().Type())
	}
	// init order: dependencies first, only for packages we execute init of
	P.initOrder = initOrder(P, gritsPkgs)
	P.PureTypes = func(t types.Type) bool {
		if p, ok := t.(*types.Pointer); ok {
			if n, ok := p.Elem().(*types.Named); ok && n.Obj().Pkg() != nil && n.Obj().Pkg().Path() == "grits/types" && strings.HasSuffix(n.Obj().Name(), "Mode") {
				return true
			}
		}
		return false
	}
	return P, nil
}

// packages whose init we run concretely before each worker starts
var initPkgs = map[string]bool{
	"grits/types": true, "grits/process": true, "grits/parser": true, "grits/cmd": true, "grits/position": true, "grits/zzpub": true,
	"errors": false,
}

func initOrder(P *Program, roots []string) []*ssa.Package {
	var order []*ssa.Package
	seen := map[string]bool{}
	var visit func(p *types.Package)
	visit = func(p *types.Package) {
		if seen[p.Path()] {
			return
		}
		seen[p.Path()] = true
		for _, imp := range p.Imports() {
			visit(imp)
		}
		if initPkgs[p.Path()] {
			if sp := P.Pkgs[p.Path()]; sp != nil {
				order = append(order, sp)
			}
		}
	}
	for _, r := range roots {
		if sp := P.Pkgs[r]; sp != nil {
			visit(sp.Pkg)
		}
	}
	return order
}

func (P *Program) lookupMethod(t types.Type, meth *types.Func) *ssa.Function {
	return P.Prog.LookupMethod(t, meth.Pkg(), meth.Name())
}

// Harness returns the SSA function pkg.name.
func (P *Program) Harness(pkg, name string) *ssa.Function {
	sp := P.Pkgs[pkg]
	if sp == nil {
		return nil
	}
	return sp.Func(name)
}

func NewMachine(P *Program) (*Machine, error) {
	bin := P.SolverBin
	if bin == "" {
		bin = "z3"
	}
	to := P.SolverTimeoutMs
	if to == 0 {
		to = 10000
	}
	sol, err := NewSolver(bin, to)
	if err != nil {
		return nil, err
	}
	m := &Machine{trace: Trace, P: P, ts: NewTermStore(), sol: sol, globals: map[*ssa.Global]Ptr{}, funcCount: map[*ssa.Function]int{}, stubsHit: map[string]int{}}
	m.lim = Limits{Depth: 400, Loop: 100000, Instrs: 50000000}
	if ierr := m.initGlobals(); ierr != nil {
		sol.Close()
		return nil, ierr
	}
	if !P.ReinitGlobals {
		m.freezeGlobals()
	}
	m.funcCount = map[*ssa.Function]int{}
	return m, nil
}

// initGlobals (re)creates the storage of every package-level variable and runs the Grits
// packages' initialisers concretely.
func (m *Machine) initGlobals() error {
	P := m.P
	// storage for globals of every package (zeroed); init only for Grits packages
	for _, pkg := range P.Prog.AllPackages() {
		for _, mem := range pkg.Members {
			if g, ok := mem.(*ssa.Global); ok {
				cell := new(Value)
				func() {
					defer func() {
						if r := recover(); r != nil {
							*cell = nil
						}
					}()
					*cell = m.zero(deref(g.Type()))
				}()
				m.globals[g] = cell
			}
		}
	}
	// run package initialisers concretely
	m.path = &pathState{pcSet: map[*Term]bool{}, reached: map[string]int{}, knownSeen: map[string]int{}, expect: map[Outcome]bool{}, assumptions: map[string]bool{}, vals: map[*Term]*Term{}}
	main := &goroutine{id: 0, started: true, isMain: true, resume: make(chan resumeMsg, 1)}
	m.gor = []*goroutine{main}
	m.cur = main
	var ierr error
	func() {
		defer func() {
			if r := recover(); r != nil {
				switch r := r.(type) {
				case pathEnd:
					ierr = fmt.Errorf("init: %s: %s", r.kind, r.msg)
				case targetPanic:
					ierr = fmt.Errorf("init panic: %s", m.panicText(r))
				default:
					panic(r)
				}
			}
		}()
		for _, sp := range P.initOrder {
			m.runInit(sp)
		}
	}()
	return ierr
}

// runInit executes the package initialiser but skips the calls to imported packages' init
// (those are either run before in dependency order, or deliberately not run: std packages).
func (m *Machine) runInit(sp *ssa.Package) {
	fn := sp.Func("init")
	if fn == nil {
		return
	}
	m.initRoot = sp
	m.call(nil, token.NoPos, fn, nil)
	m.initRoot = nil
}

func (m *Machine) freezeGlobals() {
	m.frozen = map[Ptr]bool{}
	m.frozenM = map[*Map]bool{}
	seen := map[Ptr]bool{}
	var walkV func(v Value, d int)
	var walkP func(p Ptr, d int)
	walkP = func(p Ptr, d int) {
		if p == nil || seen[p] || d > 50 {
			return
		}
		seen[p] = true
		m.frozen[p] = true
		walkV(*p, d+1)
	}
	walkV = func(v Value, d int) {
		switch v := v.(type) {
		case Ptr:
			walkP(v, d)
		case Struct:
			for i := range v {
				walkP(&v[i], d)
			}
		case Array:
			for i := range v {
				walkP(&v[i], d)
			}
		case Slice:
			for i := range v.A {
				walkP(&v.A[i], d)
			}
		case *Map:
			if v != nil {
				m.frozenM[v] = true
				for i := range v.Entries {
					walkV(v.Entries[i].V, d+1)
				}
			}
		case Iface:
			walkV(v.V, d+1)
		}
	}
	var gs []*ssa.Global
	for g := range m.globals {
		if g.Pkg != nil && initPkgs[g.Pkg.Pkg.Path()] {
			gs = append(gs, g)
		}
	}
	sort.Slice(gs, func(i, j int) bool { return gs[i].String() < gs[j].String() })
	for _, g := range gs {
		walkP(m.globals[g], 0)
	}
}

func (m *Machine) Close() { m.sol.Close() }
