package gse

// C18-only environment: symbolic flag cells and nondeterministic stage outcomes for cmd.Cli.

import (
	"fmt"
)

type cliState struct {
	flags       map[string]Value
	nargs       int
	parseOK     *Term
	typeOK      *Term
	ran         bool
	typechecked bool
	parsed      bool
	other       []string
}

var cliExternals map[string]externalFn

func init() {
	flagCell := func(m *Machine, args []Value) Value {
		name, _ := args[0].(Str).Concrete()
		v := args[1]
		if fv, ok := m.path.cli.flags[name]; ok {
			v = fv
		}
		cell := new(Value)
		*cell = v
		return Ptr(cell)
	}
	cliExternals = map[string]externalFn{
		"flag.Bool":  func(m *Machine, c *frame, a []Value) Value { return flagCell(m, a) },
		"flag.Int":   func(m *Machine, c *frame, a []Value) Value { return flagCell(m, a) },
		"flag.Uint":  func(m *Machine, c *frame, a []Value) Value { return flagCell(m, a) },
		"flag.Parse": extNop,
		"flag.Args": func(m *Machine, c *frame, a []Value) Value {
			out := make([]Value, m.path.cli.nargs)
			for i := range out {
				out[i] = mkStr(fmt.Sprintf("file%d.grits", i))
			}
			return Slice{A: out}
		},
		"grits/parser.ParseFile": func(m *Machine, c *frame, a []Value) Value {
			cli := m.path.cli
			cli.parsed = true
			m.path.events = append(m.path.events, "PARSE")
			if m.branch(cli.parseOK) {
				// a parsed (empty) program with its global environment
				genvT := m.P.Pkgs["grits/process"].Type("GlobalEnvironment").Type()
				cell := new(Value)
				*cell = m.zero(genvT)
				return Tuple{Slice{Nil: true}, Slice{Nil: true}, Ptr(cell), Iface{}}
			}
			return Tuple{Slice{Nil: true}, Slice{Nil: true}, Ptr(nil), m.newError(mkStr("syntax error"))}
		},
		"grits/process.Typecheck": func(m *Machine, c *frame, a []Value) Value {
			cli := m.path.cli
			cli.typechecked = true
			m.path.events = append(m.path.events, "TYPECHECK")
			if cli.ran {
				m.report("assert", "C18.typecheck-before-execution", "typechecker ran after execution", m.ts.True)
			}
			if m.branch(cli.typeOK) {
				return Iface{}
			}
			return m.newError(mkStr("type error"))
		},
		"grits/process.InitializeProcesses": func(m *Machine, c *frame, a []Value) Value {
			m.path.cli.ran = true
			m.path.events = append(m.path.events, "EXEC")
			return a[3]
		},
		"grits/benchmarks.SampleBenchmarks": func(m *Machine, c *frame, a []Value) Value {
			m.path.cli.other = append(m.path.cli.other, "SAMPLEBENCH")
			return nil
		},
		"grits/benchmarks.BenchmarkFile": func(m *Machine, c *frame, a []Value) Value {
			m.path.cli.other = append(m.path.cli.other, "BENCH")
			return nil
		},
		"grits/webserver.SetupAPI": func(m *Machine, c *frame, a []Value) Value {
			m.path.cli.other = append(m.path.cli.other, "WEB")
			return nil
		},
	}
}

func (m *Machine) callVNCli(name string, args []Value) (Value, bool) {
	switch name {
	case "CliBegin":
		m.path.cli = &cliState{flags: map[string]Value{}, parseOK: m.ts.True, typeOK: m.ts.True}
		return nil, true
	case "CliFlagBool", "CliFlagInt":
		n, _ := args[0].(Str).Concrete()
		m.path.cli.flags[n] = args[1]
		return nil, true
	case "CliArgs":
		m.path.cli.nargs = int(m.concreteInt(args[0], "CliArgs count"))
		m.path.cli.parseOK = args[1].(*Term)
		m.path.cli.typeOK = args[2].(*Term)
		return nil, true
	case "CliRan":
		return m.ts.Bool(m.path.cli.ran), true
	case "CliTypechecked":
		if m.path.cli.typechecked {
			return m.ts.BV(1, 64), true
		}
		return m.ts.BV(0, 64), true
	}
	return nil, false
}
