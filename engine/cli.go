package gse

// C18-only environment: symbolic flag cells and nondeterministic stage outcomes for cmd.Cli.

import (
	"fmt"
	"strings"
)

type cliState struct {
	flags       map[string]Value
	cells       map[string]Ptr // registered flag cells by name
	args        []string       // what flag.Args() answers
	nargs       int
	parseOK     *Term
	typeOK      *Term
	ran         bool
	typechecked bool
	parsed      bool
	other       []string
}

var cliExternals map[string]externalFn

func init() {
	flagCell := func(m *Machine, args []Value) Value {
		name, _ := args[0].(Str).Concrete()
		v := args[1]
		if fv, ok := m.path.cli.flags[name]; ok {
			v = fv
		}
		cell := new(Value)
		*cell = v
		m.path.cli.cells[name] = Ptr(cell)
		return Ptr(cell)
	}
	// parseList models (*flag.FlagSet).Parse on a list of tokens: flags up to the first
	// positional argument are stored into their cells, the rest becomes Args()
	parseList := func(m *Machine, list []string) Value {
		cli := m.path.cli
		i := 0
		for ; i < len(list); i++ {
			tok := list[i]
			if len(tok) < 2 || tok[0] != '-' {
				break
			}
			name := strings.TrimLeft(tok, "-")
			val := "true"
			if k := strings.IndexByte(name, '='); k >= 0 {
				name, val = name[:k], name[k+1:]
			}
			cell, ok := cli.cells[name]
			if !ok {
				m.path.events = append(m.path.events, "EXIT 2")
				m.endPath(OutExit, "flag provided but not defined: -"+name)
			}
			if t, isT := (*cell).(*Term); isT && t.Sort == SBool {
				*cell = m.ts.Bool(val == "true")
			} else {
				var n int64
				fmt.Sscan(val, &n)
				*cell = m.ts.BV(uint64(n), 64)
			}
		}
		cli.args = append([]string{}, list[i:]...)
		return Iface{}
	}
	cliExternals = map[string]externalFn{
		"flag.Bool":  func(m *Machine, c *frame, a []Value) Value { return flagCell(m, a) },
		"flag.Int":   func(m *Machine, c *frame, a []Value) Value { return flagCell(m, a) },
		"flag.Uint":  func(m *Machine, c *frame, a []Value) Value { return flagCell(m, a) },
		"flag.Parse": extNop,
		"flag.Args": func(m *Machine, c *frame, a []Value) Value {
			out := make([]Value, len(m.path.cli.args))
			for i, s := range m.path.cli.args {
				out[i] = mkStr(s)
			}
			return Slice{A: out}
		},
		"flag.NArg": func(m *Machine, c *frame, a []Value) Value {
			return m.ts.BV(uint64(len(m.path.cli.args)), 64)
		},
		"flag.Arg": func(m *Machine, c *frame, a []Value) Value {
			i := int(m.concreteInt(a[0], "flag.Arg index"))
			if i < 0 || i >= len(m.path.cli.args) {
				return mkStr("")
			}
			return mkStr(m.path.cli.args[i])
		},
		"(*flag.FlagSet).Parse": func(m *Machine, c *frame, a []Value) Value {
			sl, _ := a[1].(Slice)
			var list []string
			for _, v := range sl.A {
				s, ok := v.(Str).Concrete()
				if !ok {
					m.unsupported("FlagSet.Parse of a symbolic token")
				}
				list = append(list, s)
			}
			return parseList(m, list)
		},
		"grits/parser.ParseFile": func(m *Machine, c *frame, a []Value) Value {
			cli := m.path.cli
			cli.parsed = true
			m.path.events = append(m.path.events, "PARSE")
			if m.branch(cli.parseOK) {
				// a parsed (empty) program with its global environment
				genvT := m.P.Pkgs["grits/process"].Type("GlobalEnvironment").Type()
				cell := new(Value)
				*cell = m.zero(genvT)
				return Tuple{Slice{Nil: true}, Slice{Nil: true}, Ptr(cell), Iface{}}
			}
			return Tuple{Slice{Nil: true}, Slice{Nil: true}, Ptr(nil), m.newError(mkStr("syntax error"))}
		},
		"grits/process.Typecheck": func(m *Machine, c *frame, a []Value) Value {
			cli := m.path.cli
			cli.typechecked = true
			m.path.events = append(m.path.events, "TYPECHECK")
			if cli.ran {
				m.report("assert", "C18.typecheck-before-execution", "typechecker ran after execution", m.ts.True)
			}
			if m.branch(cli.typeOK) {
				return Iface{}
			}
			return m.newError(mkStr("type error"))
		},
		"grits/process.InitializeProcesses": func(m *Machine, c *frame, a []Value) Value {
			m.path.cli.ran = true
			m.path.events = append(m.path.events, "EXEC")
			return a[3]
		},
		"grits/benchmarks.SampleBenchmarks": func(m *Machine, c *frame, a []Value) Value {
			m.path.cli.other = append(m.path.cli.other, "SAMPLEBENCH")
			return nil
		},
		"grits/benchmarks.BenchmarkFile": func(m *Machine, c *frame, a []Value) Value {
			m.path.cli.other = append(m.path.cli.other, "BENCH")
			return nil
		},
		"grits/webserver.SetupAPI": func(m *Machine, c *frame, a []Value) Value {
			m.path.cli.other = append(m.path.cli.other, "WEB")
			return nil
		},
	}
}

func (m *Machine) callVNCli(name string, args []Value) (Value, bool) {
	switch name {
	case "CliBegin":
		m.path.cli = &cliState{flags: map[string]Value{}, cells: map[string]Ptr{}, parseOK: m.ts.True, typeOK: m.ts.True}
		return nil, true
	case "CliFlagBool", "CliFlagInt":
		n, _ := args[0].(Str).Concrete()
		m.path.cli.flags[n] = args[1]
		return nil, true
	case "CliArgs":
		m.path.cli.nargs = int(m.concreteInt(args[0], "CliArgs count"))
		m.path.cli.args = nil
		for i := 0; i < m.path.cli.nargs; i++ {
			m.path.cli.args = append(m.path.cli.args, fmt.Sprintf("file%d.grits", i))
		}
		m.path.cli.parseOK = args[1].(*Term)
		m.path.cli.typeOK = args[2].(*Term)
		return nil, true
	case "CliTrailing":
		tok, ok := args[0].(Str).Concrete()
		if !ok {
			m.unsupported("CliTrailing with a symbolic token")
		}
		m.path.cli.args = append(m.path.cli.args, tok)
		return nil, true
	case "CliRan":
		return m.ts.Bool(m.path.cli.ran), true
	case "CliTypechecked":
		if m.path.cli.typechecked {
			return m.ts.BV(1, 64), true
		}
		return m.ts.BV(0, 64), true
	}
	return nil, false
}
