package gse

import (
	"fmt"
	"go/constant"
	"go/token"
	"go/types"
	"math"
	"unicode/utf8"

	"golang.org/x/tools/go/ssa"
)

func (m *Machine) constValue(c *ssa.Const) Value {
	if c.Value == nil {
		return m.zero(c.Type())
	}
	t, ok := c.Type().Underlying().(*types.Basic)
	if !ok {
		// typeparam etc.
		m.unsupported(fmt.Sprintf("constant of type %s", c.Type()))
	}
	switch {
	case t.Info()&types.IsBoolean != 0:
		return m.ts.Bool(constantBool(c))
	case t.Info()&types.IsInteger != 0:
		if t.Info()&types.IsUnsigned != 0 {
			return m.ts.BV(c.Uint64(), intWidth(t))
		}
		return m.ts.BV(uint64(c.Int64()), intWidth(t))
	case t.Info()&types.IsFloat != 0:
		return c.Float64()
	case t.Info()&types.IsString != 0:
		return mkStr(constantString(c))
	case t.Info()&types.IsComplex != 0:
		return c.Complex128()
	}
	m.unsupported(fmt.Sprintf("constant %s", c))
	return nil
}

func (m *Machine) unop(instr *ssa.UnOp, x Value) Value {
	switch instr.Op {
	case token.ARROW:
		if m.schedOn() {
			return m.schedRecv(m.cur.fr, x.(*Chan), instr.CommaOk, instr.Type())
		}
		return m.chanRecv(x.(*Chan), instr.CommaOk, instr.Type())
	case token.MUL:
		return m.load(x.(Ptr))
	case token.SUB:
		switch x := x.(type) {
		case *Term:
			return m.ts.Neg(x)
		case float64:
			return -x
		}
	case token.NOT:
		return m.ts.Not(x.(*Term))
	case token.XOR:
		return m.ts.BNot(x.(*Term))
	}
	m.unsupported(fmt.Sprintf("unop %s on %T", instr.Op, x))
	return nil
}

func (m *Machine) binop(op token.Token, t types.Type, x, y Value) Value {
	switch op {
	case token.EQL:
		return m.equalVals(x, y)
	case token.NEQ:
		return m.ts.Not(m.equalVals(x, y))
	}
	switch x := x.(type) {
	case *Term:
		yt := y.(*Term)
		if x.Sort == SBool {
			switch op {
			case token.AND, token.LAND:
				return m.ts.And(x, yt)
			case token.OR, token.LOR:
				return m.ts.Or(x, yt)
			}
			m.unsupported("bool binop " + op.String())
		}
		signed := isSigned(t)
		switch op {
		case token.ADD:
			return m.ts.BinBV(OAdd, x, yt)
		case token.SUB:
			return m.ts.BinBV(OSub, x, yt)
		case token.MUL:
			return m.ts.BinBV(OMul, x, yt)
		case token.QUO, token.REM:
			z := m.ts.Eq(yt, m.ts.BV(0, yt.W))
			if m.branch(z) {
				m.throwRuntime("integer divide by zero")
			}
			if signed {
				if op == token.QUO {
					return m.ts.BinBV(OSDiv, x, yt)
				}
				return m.ts.BinBV(OSRem, x, yt)
			}
			if op == token.QUO {
				return m.ts.BinBV(OUDiv, x, yt)
			}
			return m.ts.BinBV(OURem, x, yt)
		case token.AND:
			return m.ts.BinBV(OBAnd, x, yt)
		case token.OR:
			return m.ts.BinBV(OBOr, x, yt)
		case token.XOR:
			return m.ts.BinBV(OBXor, x, yt)
		case token.AND_NOT:
			return m.ts.BinBV(OBAnd, x, m.ts.BNot(yt))
		case token.SHL, token.SHR:
			// shift count may have a different width / signedness
			cnt := yt
			if cnt.W != x.W {
				if cnt.IsConst() {
					v := cnt.I
					if v > 255 {
						v = 255
					}
					cnt = m.ts.BV(v, x.W)
				} else if cnt.W < x.W {
					cnt = m.ts.Resize(cnt, x.W, false)
				} else {
					// saturate
					big := m.ts.CmpBV(OULt, m.ts.BV(uint64(x.W), cnt.W), cnt)
					cnt = m.ts.Ite(big, m.ts.BV(uint64(x.W), x.W), m.ts.Resize(cnt, x.W, false))
				}
			}
			if op == token.SHL {
				return m.ts.BinBV(OShl, x, cnt)
			}
			if signed {
				return m.ts.BinBV(OAShr, x, cnt)
			}
			return m.ts.BinBV(OLShr, x, cnt)
		case token.LSS:
			if signed {
				return m.ts.CmpBV(OSLt, x, yt)
			}
			return m.ts.CmpBV(OULt, x, yt)
		case token.LEQ:
			if signed {
				return m.ts.CmpBV(OSLe, x, yt)
			}
			return m.ts.CmpBV(OULe, x, yt)
		case token.GTR:
			if signed {
				return m.ts.CmpBV(OSLt, yt, x)
			}
			return m.ts.CmpBV(OULt, yt, x)
		case token.GEQ:
			if signed {
				return m.ts.CmpBV(OSLe, yt, x)
			}
			return m.ts.CmpBV(OULe, yt, x)
		}
	case float64:
		yf := y.(float64)
		switch op {
		case token.ADD:
			return x + yf
		case token.SUB:
			return x - yf
		case token.MUL:
			return x * yf
		case token.QUO:
			return x / yf
		case token.LSS:
			return m.ts.Bool(x < yf)
		case token.LEQ:
			return m.ts.Bool(x <= yf)
		case token.GTR:
			return m.ts.Bool(x > yf)
		case token.GEQ:
			return m.ts.Bool(x >= yf)
		}
	case Str:
		ys := y.(Str)
		switch op {
		case token.ADD:
			return concatStr(x, ys)
		case token.LSS, token.LEQ, token.GTR, token.GEQ:
			a, ok1 := x.Concrete()
			b, ok2 := ys.Concrete()
			if !ok1 || !ok2 {
				m.unsupported("ordering of symbolic strings")
			}
			switch op {
			case token.LSS:
				return m.ts.Bool(a < b)
			case token.LEQ:
				return m.ts.Bool(a <= b)
			case token.GTR:
				return m.ts.Bool(a > b)
			default:
				return m.ts.Bool(a >= b)
			}
		}
	}
	m.unsupported(fmt.Sprintf("binop %s on %T", op, x))
	return nil
}

func (m *Machine) conv(tDst, tSrc types.Type, x Value) Value {
	utDst := tDst.Underlying()
	utSrc := tSrc.Underlying()

	switch utDst.(type) {
	case *types.Pointer, *types.Signature, *types.Struct, *types.Array, *types.Map, *types.Chan, *types.Interface:
		return x
	}
	if _, ok := utSrc.(*types.Pointer); ok {
		if b, ok := utDst.(*types.Basic); ok && b.Kind() == types.UnsafePointer {
			return x
		}
	}
	switch ds := utDst.(type) {
	case *types.Slice:
		if _, ok := utSrc.(*types.Slice); ok {
			return x
		}
		// string -> []byte / []rune
		s, ok := x.(Str)
		if !ok {
			break
		}
		eb, _ := ds.Elem().Underlying().(*types.Basic)
		if eb != nil && eb.Kind() == types.Uint8 {
			cs, ok := s.Concrete()
			if !ok {
				m.unsupported("[]byte of symbolic string")
			}
			out := make([]Value, len(cs))
			for i := 0; i < len(cs); i++ {
				out[i] = m.ts.BV(uint64(cs[i]), 8)
			}
			return Slice{A: out}
		}
		if eb != nil && eb.Kind() == types.Int32 {
			rs := m.strRunes(s)
			out := make([]Value, len(rs))
			for i, r := range rs {
				out[i] = r
			}
			return Slice{A: out}
		}
	case *types.Basic:
		switch x := x.(type) {
		case *Term:
			if x.Sort == SBool {
				return x
			}
			if ds.Info()&types.IsInteger != 0 {
				return m.ts.Resize(x, intWidth(ds), isSigned(tSrc))
			}
			if ds.Info()&types.IsFloat != 0 {
				if !x.IsConst() {
					m.unsupported("symbolic int to float")
				}
				if isSigned(tSrc) {
					return float64(sext64(x.I, x.W))
				}
				return float64(x.I)
			}
			if ds.Info()&types.IsString != 0 {
				// integer (rune) to string
				r := m.ts.Resize(x, 32, isSigned(tSrc))
				if r.IsConst() {
					return mkStr(decodeRuneStr(rune(int32(r.I))))
				}
				return Str{[]spart{{r: r}}}
			}
		case float64:
			if ds.Info()&types.IsFloat != 0 {
				if ds.Kind() == types.Float32 {
					return float64(float32(x))
				}
				return x
			}
			if ds.Info()&types.IsInteger != 0 {
				if ds.Info()&types.IsUnsigned != 0 {
					return m.ts.BV(uint64(x), intWidth(ds))
				}
				if math.IsNaN(x) {
					return m.ts.BV(0, intWidth(ds))
				}
				return m.ts.BV(uint64(int64(x)), intWidth(ds))
			}
		case Str:
			if ds.Info()&types.IsString != 0 {
				return x
			}
		case Slice:
			if ds.Info()&types.IsString != 0 {
				// []byte / []rune -> string
				es := utSrc.(*types.Slice).Elem().Underlying().(*types.Basic)
				if es.Kind() == types.Uint8 {
					buf := make([]byte, len(x.A))
					for i, e := range x.A {
						t := e.(*Term)
						if !t.IsConst() {
							m.unsupported("string of symbolic bytes")
						}
						buf[i] = byte(t.I)
					}
					return mkStr(string(buf))
				}
				var out Str
				for _, e := range x.A {
					t := e.(*Term)
					if t.IsConst() {
						out = concatStr(out, mkStr(decodeRuneStr(rune(int32(t.I)))))
					} else {
						out = concatStr(out, Str{[]spart{{r: t}}})
					}
				}
				return out
			}
		case Ptr:
			return x
		}
	}
	m.unsupported(fmt.Sprintf("conversion %s -> %s (%T)", tSrc, tDst, x))
	return nil
}

// ---- type assertions ----

func (m *Machine) implements(t types.Type, it *types.Interface) bool {
	return types.Implements(t, it)
}

func (m *Machine) typeAssert(instr *ssa.TypeAssert, xv Value) Value {
	if s, ok := xv.(*SymIface); ok {
		return m.typeAssertSym(instr, s)
	}
	x := xv.(Iface)
	var v Value
	err := ""
	if x.T == nil {
		err = fmt.Sprintf("interface conversion: interface is nil, not %s", instr.AssertedType)
	} else if idst, ok := instr.AssertedType.Underlying().(*types.Interface); ok {
		v = x
		if !m.implements(x.T, idst) {
			err = fmt.Sprintf("interface conversion: %s is not %s", x.T, instr.AssertedType)
		}
	} else if types.Identical(x.T, instr.AssertedType) {
		v = copyVal(x.V)
	} else {
		err = fmt.Sprintf("interface conversion: interface is %s, not %s", x.T, instr.AssertedType)
	}
	if err != "" {
		if !instr.CommaOk {
			m.throwRuntime(err)
		}
		return Tuple{m.zero(instr.AssertedType), m.ts.False}
	}
	if instr.CommaOk {
		return Tuple{v, m.ts.True}
	}
	return v
}

func (m *Machine) typeAssertSym(instr *ssa.TypeAssert, s *SymIface) Value {
	if idst, ok := instr.AssertedType.Underlying().(*types.Interface); ok {
		all := true
		for _, a := range s.Alts {
			if a.T == nil || !m.implements(a.T, idst) {
				all = false
			}
		}
		if all {
			if instr.CommaOk {
				return Tuple{s, m.ts.True}
			}
			return s
		}
		// fall back: concretise
		c := m.concretizeSym(s)
		return m.typeAssert(instr, c)
	}
	okT := m.ts.False
	var val Value
	n := 0
	for i, a := range s.Alts {
		if a.T != nil && types.Identical(a.T, instr.AssertedType) {
			okT = m.ts.Or(okT, m.ts.Eq(s.Sel, m.ts.BV(uint64(i), 64)))
			val = a.V
			n++
		}
	}
	if n > 1 {
		c := m.concretizeSym(s)
		return m.typeAssert(instr, c)
	}
	if val == nil {
		val = m.zero(instr.AssertedType)
	}
	if instr.CommaOk {
		return Tuple{val, okT}
	}
	if !m.branch(okT) {
		m.throwRuntime(fmt.Sprintf("interface conversion: interface is not %s", instr.AssertedType))
	}
	return val
}

// concretizeSym forks on the selector and returns the chosen concrete alternative.
func (m *Machine) concretizeSym(s *SymIface) Iface {
	for i := 0; i < len(s.Alts)-1; i++ {
		if m.branch(m.ts.Eq(s.Sel, m.ts.BV(uint64(i), 64))) {
			return s.Alts[i]
		}
	}
	// last alternative: selector range is constrained by construction
	i := len(s.Alts) - 1
	if !m.branch(m.ts.Eq(s.Sel, m.ts.BV(uint64(i), 64))) {
		m.endPath(OutAssume, "selector out of range")
	}
	return s.Alts[i]
}

// ---- slices ----

func (m *Machine) sliceOp(instr *ssa.Slice, x, lo, hi, max Value) Value {
	var length, capacity int
	switch x := x.(type) {
	case Str:
		cs, ok := x.Concrete()
		if !ok {
			// slicing symbolic strings: only used for diagnostics in Grits; yield an opaque string
			return m.opaqueStr("slice")
		}
		l, h := 0, len(cs)
		if lo != nil {
			l = int(m.concreteInt(lo, "slice bound"))
		}
		if hi != nil {
			h = int(m.concreteInt(hi, "slice bound"))
		}
		if l < 0 || h > len(cs) || l > h {
			m.throwRuntime(fmt.Sprintf("slice bounds out of range [%d:%d] with length %d", l, h, len(cs)))
		}
		return mkStr(cs[l:h])
	case Slice:
		length, capacity = len(x.A), cap(x.A)
		l, h, mx := 0, length, capacity
		if lo != nil {
			l = int(m.concreteInt(lo, "slice bound"))
		}
		if hi != nil {
			h = int(m.concreteInt(hi, "slice bound"))
		}
		if max != nil {
			mx = int(m.concreteInt(max, "slice bound"))
		}
		if l < 0 || h < l || mx < h || mx > capacity {
			m.throwRuntime(fmt.Sprintf("slice bounds out of range [%d:%d:%d] with capacity %d", l, h, mx, capacity))
		}
		if x.Nil && l == 0 && h == 0 {
			return Slice{Nil: true}
		}
		return Slice{A: x.A[:capacity][l:h:mx]}
	case Ptr: // *array
		if x == nil {
			m.throwRuntime("invalid memory address or nil pointer dereference")
		}
		a := (*x).(Array)
		l, h, mx := 0, len(a), len(a)
		if lo != nil {
			l = int(m.concreteInt(lo, "slice bound"))
		}
		if hi != nil {
			h = int(m.concreteInt(hi, "slice bound"))
		}
		if max != nil {
			mx = int(m.concreteInt(max, "slice bound"))
		}
		if l < 0 || h < l || mx < h || mx > len(a) {
			m.throwRuntime("slice bounds out of range")
		}
		return Slice{A: []Value(a)[l:h:mx]}
	}
	m.unsupported(fmt.Sprintf("slice of %T", x))
	return nil
}

// index resolves a possibly symbolic index into [0,n): bounds check + concretisation.
func (m *Machine) index(idx Value, n int) int {
	t := idx.(*Term)
	if t.IsConst() {
		i := sext64(t.I, t.W)
		if i < 0 || i >= int64(n) {
			m.throwRuntime(fmt.Sprintf("index out of range [%d] with length %d", i, n))
		}
		return int(i)
	}
	t64 := m.ts.Resize(t, 64, true)
	inb := m.ts.And(m.ts.CmpBV(OSLe, m.ts.BV(0, 64), t64), m.ts.CmpBV(OSLt, t64, m.ts.BV(uint64(n), 64)))
	if !m.branch(inb) {
		m.throwRuntime(fmt.Sprintf("index out of range [symbolic] with length %d", n))
	}
	for i := 0; i < n-1; i++ {
		if m.branch(m.ts.Eq(t64, m.ts.BV(uint64(i), 64))) {
			return i
		}
	}
	return n - 1
}

func utf8Decode(s string, i int) (rune, int) { return utf8.DecodeRuneInString(s[i:]) }

func constantBool(c *ssa.Const) bool { return constant.BoolVal(c.Value) }
func constantString(c *ssa.Const) string {
	if c.Value.Kind() == constant.String {
		return constant.StringVal(c.Value)
	}
	return string(rune(c.Int64()))
}
