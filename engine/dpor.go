package gse

// Dynamic partial-order reduction (Flanagan & Godefroid 2005) on top of the sleep sets of
// sched2.go. Instead of forking every awake alternative at every scheduling node, a path runs
// with the first awake transition everywhere; alternatives are scheduled only where the executed
// trace shows a *race*: two dependent transitions of different goroutines that are not ordered
// by the happens-before relation of the trace and could have been taken in the other order.
// For each race the alternative is queued at the earlier node (the goroutine of the later
// transition, or one that leads to it, if it had an enabled transition there; every enabled
// transition otherwise). Transitions that were enabled together with the chosen one and are
// dependent on it are queued at once. Sleep sets are kept (an alternative scheduled at a node
// puts the alternatives scheduled there before it to sleep), so no two complete paths are
// equivalent.
//
// GSE_NODPOR=1 switches back to plain sleep sets (every awake alternative is forked);
// GSE_NOSLEEP=1 / param NOSLEEP=1 switches both off (every interleaving) — the three must and
// do give the same verdicts on the programs where the unreduced exploration finishes.

import (
	"fmt"
	"os"
)

// EXPERIMENTAL and off by default (GSE_DPOR=1 switches it on): on the menu programs it explores
// 100-1000 times fewer paths than plain sleep sets, but with select-default branches (the
// non-polarised mode) it still missed one of nine Mazurkiewicz traces of m15 in the comparison
// with the plain sleep-set exploration, and the conservative repair lost the reduction. The
// registered checks therefore use plain sleep sets (validated against the unreduced exploration).
var noDPOR = os.Getenv("GSE_DPOR") == ""

type workItem struct {
	prefix  []bool
	sleepAt [][]sleeper // per scheduling node of the prefix: the alternatives asleep there
}

type nodeRec struct {
	key     string
	decOff  int
	cands   []trans   // enabled transitions (awake or not)
	awake   []trans   // enabled and not asleep, in choice order
	accs    []sleeper // accesses of awake[i]
	chosen  int
	parked  map[int]*schedOp
	isNew   bool
	nAwake  int
	sleepAt int // index into sleepAtOwn
}

type nodeReg struct {
	key    string
	chosen sleeper
}

type btRequest struct {
	key     string
	alt     sleeper
	prefix  []bool
	sleepAt [][]sleeper
}

type dporNode struct {
	scheduled []sleeper
}

type traceRec struct {
	node  int
	s     sleeper
	op    [2]*schedOp
	pre   []int // clock of the goroutines before the transition (without the object clocks)
	clock []int
	all   bool // quiescence: ordered with everything
}

// objClocks: per channel / mutex, the clocks of the earlier accesses by kind.
type objClocks struct{ op, peek, ann []int }

func (m *Machine) dporOn() bool {
	return !noDPOR && !noSleepSets && m.P.Params["NOSLEEP"] != 1 && m.P.Params["NODPOR"] != 1
}

func joinClock(a, b []int) []int {
	if len(b) > len(a) {
		a = append(a, make([]int, len(b)-len(a))...)
	}
	for i, x := range b {
		if x > a[i] {
			a[i] = x
		}
	}
	return a
}

func clockGet(c []int, g int) int {
	if g >= 0 && g < len(c) {
		return c[g]
	}
	return 0
}

func encodeChoice(prefix []bool, idx, n int) []bool {
	out := append([]bool(nil), prefix...)
	for i := 0; i < idx; i++ {
		out = append(out, false)
	}
	if idx < n-1 {
		out = append(out, true)
	}
	return out
}

// dporRequest queues alternative alt (an index into the awake list of node nd).
func (m *Machine) dporRequest(nd *nodeRec, alt int) {
	p := m.path
	if alt == nd.chosen || alt < 0 || alt >= len(nd.awake) {
		return
	}
	for _, r := range p.btReq {
		if r.key == nd.key && r.alt.t == nd.awake[alt] {
			return
		}
	}
	var sa [][]sleeper
	if nd.sleepAt > 0 {
		sa = append(sa, p.sleepAtOwn[:nd.sleepAt]...)
	}
	p.btReq = append(p.btReq, btRequest{key: nd.key, alt: nd.accs[alt], prefix: encodeChoice(p.decisions[:nd.decOff], alt, len(nd.awake)), sleepAt: sa})
}

// dporRaces looks for the latest earlier transition that races with s (about to be executed, or
// pending at the end of the path) and queues the corresponding alternative.
func (m *Machine) dporRaces(s sleeper, ops [2]*schedOp) {
	p := m.path
	var pre []int
	for _, g := range s.gs {
		if g >= 0 {
			pre = joinClock(pre, p.gclock[g])
		}
	}
	m.dporRacesFrom(s, ops, pre, len(p.trace)-1)
}

func (m *Machine) dporRacesFrom(s sleeper, ops [2]*schedOp, pre []int, from int) {
	p := m.path
	for i := from; i >= 0; i-- {
		ti := p.trace[i]
		if ti.all {
			return // everything before a quiescence point is ordered before what follows
		}
		share := false
		for _, x := range ti.s.gs {
			for _, y := range s.gs {
				if x >= 0 && x == y {
					share = true
				}
			}
		}
		if share || !dependent(ti.s, s) {
			continue
		}
		hb := false
		for _, g := range ti.s.gs {
			if g >= 0 && clockGet(pre, g) >= i+1 {
				hb = true
			}
		}
		if hb {
			continue
		}
		nd := p.nodes[ti.node]
		// goroutines whose enabled transition at that node may be taken first: those of s and
		// those with a later transition that happens before s
		want := map[int]bool{}
		for _, g := range s.gs {
			if g >= 0 {
				want[g] = true
			}
		}
		for k := i + 1; k < len(p.trace); k++ {
			tk := p.trace[k]
			for _, g := range tk.s.gs {
				if g >= 0 && clockGet(pre, g) >= k+1 {
					want[g] = true
				}
			}
		}
		found := false
		for a, t := range nd.awake {
			if a != nd.chosen && (want[t.g] || (t.p >= 0 && want[t.p])) {
				m.dporRequest(nd, a)
				found = true
				break
			}
		}
		if found {
			return
		}
		// was the racing transition itself parked at that node (same pending operation) but not
		// enabled? then the earlier transition enabled it: no race
		disabledThere := false
		for k, g := range s.gs {
			if g >= 0 && ops[k] != nil && nd.parked[g] == ops[k] {
				disabledThere = true
			}
		}
		asleepThere := false
		for _, t := range nd.cands {
			if want[t.g] || (t.p >= 0 && want[t.p]) {
				asleepThere = true // enabled but asleep or chosen: covered elsewhere
			}
		}
		if disabledThere || asleepThere {
			return
		}
		for a := range nd.awake {
			m.dporRequest(nd, a)
		}
		return
	}
}

// dporStep records the transition chosen at node nd: races, clocks, trace.
func (m *Machine) dporStep(nd *nodeRec, ndIdx int, t trans, ts sleeper, quiesce bool) {
	p := m.path
	if p.gclock == nil {
		p.gclock = map[int][]int{}
		p.objs = map[interface{}]*objClocks{}
	}
	idx := len(p.trace) + 1
	rec := &traceRec{node: ndIdx, s: ts, all: quiesce}
	if quiesce {
		var all []int
		for _, c := range p.gclock {
			all = joinClock(all, c)
		}
		for _, g := range m.gor {
			c := append([]int(nil), all...)
			for len(c) <= g.id {
				c = append(c, 0)
			}
			c[g.id] = idx
			p.gclock[g.id] = c
		}
		rec.clock = all
		p.trace = append(p.trace, rec)
		return
	}
	var ops [2]*schedOp
	for k, g := range ts.gs {
		if g >= 0 {
			ops[k] = m.gor[g].pending
		}
	}
	rec.op = ops
	m.dporRaces(ts, ops)
	var clock []int
	for _, g := range ts.gs {
		if g >= 0 {
			clock = joinClock(clock, p.gclock[g])
		}
	}
	rec.pre = append([]int(nil), clock...)
	clock = m.dporJoinObjects(clock, ts.acc)
	for _, g := range ts.gs {
		if g >= 0 {
			for len(clock) <= g {
				clock = append(clock, 0)
			}
			clock[g] = idx
		}
	}
	for _, g := range ts.gs {
		if g >= 0 {
			p.gclock[g] = append([]int(nil), clock...)
		}
	}
	m.dporPublish(clock, ts.acc)
	rec.clock = clock
	p.trace = append(p.trace, rec)
}

// dporPathEnd: transitions that were never executed (goroutines still parked when the path
// ended) may race with executed ones as well.
func (m *Machine) dporPathEnd() {
	p := m.path
	if !m.dporOn() || len(p.nodes) == 0 {
		return
	}
	defer func() { recover() }()
	for _, g := range m.gor {
		if g.done || !g.parked || g.pending == nil || g.pending.kind == opLocal || g.pending.kind == opQuiesce {
			continue
		}
		s := sleeper{gs: [2]int{g.id, -1}}
		switch g.pending.kind {
		case opClose:
			s.acc = append(s.acc, access{ch: g.pending.cases[0].ch, kind: 2})
		case opMutex, opWait:
			s.acc = append(s.acc, access{kind: 1, mu: g.pending.mu})
		default:
			for _, c := range g.pending.cases {
				if c.ch != nil && !(c.ch.Unordered && c.send) {
					s.acc = append(s.acc, access{ch: c.ch, kind: 1})
				}
			}
		}
		if len(s.acc) == 0 {
			continue
		}
		m.dporRaces(s, [2]*schedOp{g.pending, nil})
	}
}

func nodeKey(dec []bool, idx int) string {
	b := make([]byte, len(dec))
	for i, d := range dec {
		if d {
			b[i] = '1'
		} else {
			b[i] = '0'
		}
	}
	return fmt.Sprintf("%s#%d", b, idx)
}

func accKey(a access) interface{} {
	if a.ch == nil {
		return a.mu
	}
	return a.ch
}

func accClass(a access) int {
	// 0 peek, 1 op / close, 3 announce; on a done-only channel every non-close access is a peek
	if a.ch != nil && a.ch.DoneOnly && a.kind != 2 {
		return 0
	}
	if a.kind == 2 {
		return 1
	}
	return a.kind
}

func (m *Machine) objOf(a access) *objClocks {
	p := m.path
	k := accKey(a)
	o := p.objs[k]
	if o == nil {
		o = &objClocks{}
		p.objs[k] = o
	}
	return o
}

// dporJoinObjects: the transition is ordered after the earlier conflicting accesses.
func (m *Machine) dporJoinObjects(clock []int, acc []access) []int {
	for _, a := range acc {
		o := m.objOf(a)
		switch accClass(a) {
		case 0:
			clock = joinClock(clock, o.op)
			clock = joinClock(clock, o.ann)
		case 1:
			clock = joinClock(clock, o.op)
			clock = joinClock(clock, o.peek)
		case 3:
			clock = joinClock(clock, o.peek)
		}
	}
	return clock
}

func (m *Machine) dporPublish(clock []int, acc []access) {
	for _, a := range acc {
		o := m.objOf(a)
		switch accClass(a) {
		case 0:
			o.peek = joinClock(append([]int(nil), o.peek...), clock)
		case 1:
			o.op = joinClock(append([]int(nil), o.op...), clock)
		case 3:
			o.ann = joinClock(append([]int(nil), o.ann...), clock)
		}
	}
}

// dporTailKnown: the tail of the transition chosen at the last node has run; its sleeper (used
// when later alternatives at that node put it to sleep) now carries the announcements.
func (m *Machine) dporTailKnown(ann []access) {
	p := m.path
	rec := p.trace[len(p.trace)-1]
	if rec.all || rec.node >= len(p.nodes) {
		return
	}
	nd := p.nodes[rec.node]
	if nd.chosen >= len(nd.accs) {
		return
	}
	s := nd.accs[nd.chosen]
	s.acc = append(append([]access(nil), s.acc...), ann...)
	s.tailKnown = true
	nd.accs[nd.chosen] = s
	for k := range p.newNodes {
		if p.newNodes[k].key == nd.key {
			p.newNodes[k].chosen = s
		}
	}
}

// dporAnnounce: the previous transition made goroutines park at these channels; that is part
// of its effect (it can disable a default branch that peeks at them).
func (m *Machine) dporAnnounce(ann []access) {
	p := m.path
	rec := p.trace[len(p.trace)-1]
	if rec.all {
		return
	}
	as := sleeper{gs: rec.s.gs, acc: ann, tailKnown: true}
	// alternatives that were enabled together with the transition and that its announcements
	// can disable (a default branch peeking at one of these channels)
	if rec.node < len(p.nodes) {
		nd := p.nodes[rec.node]
		peek := sleeper{gs: [2]int{-1, -1}, acc: ann, tailKnown: true}
		for a := range nd.awake {
			if a != nd.chosen && dependent(nd.accs[a], peek) {
				m.dporRequest(nd, a)
			}
		}
	}
	m.dporRacesFrom(as, rec.op, rec.pre, len(p.trace)-2)
	clock := m.dporJoinObjects(append([]int(nil), rec.clock...), ann)
	for _, g := range rec.s.gs {
		if g >= 0 {
			p.gclock[g] = joinClock(append([]int(nil), p.gclock[g]...), clock)
		}
	}
	m.dporPublish(clock, ann)
	rec.s.acc = append(append([]access(nil), rec.s.acc...), ann...)
	rec.clock = clock
}
