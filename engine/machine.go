package gse

import (
	"fmt"
	"go/token"
	"go/types"
	"strings"
	"sync"

	"golang.org/x/tools/go/ssa"
)

// ---- path outcomes ----

type Outcome int

const (
	OutOK Outcome = iota
	OutAssume
	OutPanic
	OutUnwind
	OutBlocked
	OutUnsupported
	OutExit
	OutInconclusive
	OutGlobalWrite
	OutPruned
)

func (o Outcome) String() string {
	return [...]string{"ok", "assume", "panic", "unwind", "blocked", "unsupported", "exit", "inconclusive", "globalwrite", "pruned"}[o]
}

// pathEnd is thrown (Go panic) to terminate the current path; interpreted defers do not see it.
type pathEnd struct {
	kind Outcome
	msg  string
}

// targetPanic is a panic of the interpreted program.
type targetPanic struct {
	v   Value
	msg string
}

type fnInfo struct {
	index map[ssa.Value]int
	n     int
	first [][]ssa.Instruction // non-phi instrs per block
	phis  [][]*ssa.Phi
}

var fnInfos sync.Map // *ssa.Function -> *fnInfo

func infoOf(fn *ssa.Function) *fnInfo {
	if v, ok := fnInfos.Load(fn); ok {
		return v.(*fnInfo)
	}
	fi := &fnInfo{index: map[ssa.Value]int{}}
	add := func(v ssa.Value) {
		fi.index[v] = fi.n
		fi.n++
	}
	for _, p := range fn.Params {
		add(p)
	}
	for _, fv := range fn.FreeVars {
		add(fv)
	}
	for _, b := range fn.Blocks {
		var ph []*ssa.Phi
		k := 0
		for k < len(b.Instrs) {
			p, ok := b.Instrs[k].(*ssa.Phi)
			if !ok {
				break
			}
			ph = append(ph, p)
			k++
		}
		fi.phis = append(fi.phis, ph)
		fi.first = append(fi.first, b.Instrs[k:])
		for _, in := range b.Instrs {
			if v, ok := in.(ssa.Value); ok {
				add(v)
			}
		}
	}
	v, _ := fnInfos.LoadOrStore(fn, fi)
	return v.(*fnInfo)
}

type deferred struct {
	fn   Value
	args []Value
	tail *deferred
}

type frame struct {
	m                *Machine
	caller           *frame
	fn               *ssa.Function
	info             *fnInfo
	block, prevBlock *ssa.BasicBlock
	env              []Value
	defers           *deferred
	result           Value
	panicking        bool
	panicV           interface{}
	visits           []int
	g                *goroutine
}

func (fr *frame) get(key ssa.Value) Value {
	switch key := key.(type) {
	case nil:
		return nil
	case *ssa.Function:
		return key
	case *ssa.Builtin:
		return key
	case *ssa.Const:
		return fr.m.constValue(key)
	case *ssa.Global:
		if r, ok := fr.m.globals[key]; ok {
			return r
		}
		fr.m.unsupported("global without storage: " + key.String())
	}
	if i, ok := fr.info.index[key]; ok {
		return fr.env[i]
	}
	panic(fmt.Sprintf("get: no value for %T: %v", key, key.Name()))
}

func (fr *frame) set(key ssa.Value, v Value) {
	fr.env[fr.info.index[key]] = v
}

// Limits bound every path; exceeding one ends the path as UNWIND.
type Limits struct {
	Depth  int
	Loop   int
	Instrs int
}

var Trace bool

type Machine struct {
	P       *Program
	ts      *TermStore
	sol     *Solver
	globals map[*ssa.Global]Ptr
	frozen  map[Ptr]bool
	frozenM map[*Map]bool
	lim     Limits

	// path state
	path        *pathState
	depth       int
	instrs      int
	gor         []*goroutine
	cur         *goroutine
	chanSeq     int
	funcCount   map[*ssa.Function]int // functions entered over all paths (evidence)
	stubsHit    map[string]int
	trace       bool
	noForkDepth int // >0: executing a pure summary run; symbolic branches are errors
	eofErr      Value
	initRoot    *ssa.Package
	curHarness  string
}

func (m *Machine) endPath(kind Outcome, msg string) {
	panic(pathEnd{kind, msg})
}

func (m *Machine) unsupported(msg string) {
	if m.cur != nil && m.cur.fr != nil {
		msg += " in " + m.cur.fr.fn.String()
	}
	panic(pathEnd{OutUnsupported, msg})
}

func (m *Machine) globalWrite(msg string) {
	panic(pathEnd{OutGlobalWrite, msg})
}

func (m *Machine) throwRuntime(msg string) {
	panic(targetPanic{v: Iface{T: m.P.runtimeErrT, V: mkStr(msg)}, msg: "runtime error: " + msg})
}

func (m *Machine) panicText(p targetPanic) string {
	if p.msg != "" {
		return p.msg
	}
	switch v := p.v.(type) {
	case Iface:
		if s, ok := v.V.(Str); ok {
			return s.String()
		}
		if v.T != nil {
			// error values: try field 0 string of pointer-to-struct
			if pp, ok := v.V.(Ptr); ok && pp != nil {
				if st, ok := (*pp).(Struct); ok && len(st) > 0 {
					if s, ok := st[0].(Str); ok {
						return s.String()
					}
				}
			}
			return fmt.Sprintf("(%s)", v.T)
		}
	}
	return m.toString(p.v)
}

// ---- calls ----

func (m *Machine) prepareCall(fr *frame, call *ssa.CallCommon) (fn Value, args []Value) {
	v := fr.get(call.Value)
	if call.Method == nil {
		fn = v
	} else {
		switch recv := v.(type) {
		case Iface:
			if recv.T == nil {
				m.throwRuntime("invalid memory address or nil pointer dereference")
			}
			f := m.P.lookupMethod(recv.T, call.Method)
			if f == nil {
				m.unsupported(fmt.Sprintf("method %s of %s not found", call.Method, recv.T))
			}
			fn = f
			args = append(args, recv.V)
		case *SymIface:
			fn = symInvoke{recv, call.Method}
		default:
			panic(fmt.Sprintf("invoke on %T", v))
		}
	}
	for _, arg := range call.Args {
		args = append(args, fr.get(arg))
	}
	return
}

type symInvoke struct {
	recv   *SymIface
	method *types.Func
}

func (m *Machine) call(caller *frame, pos token.Pos, fn Value, args []Value) Value {
	switch fn := fn.(type) {
	case *ssa.Function:
		if fn == nil {
			m.throwRuntime("invalid memory address or nil pointer dereference")
		}
		return m.callSSA(caller, pos, fn, args, nil)
	case *Closure:
		if fn == nil {
			m.throwRuntime("invalid memory address or nil pointer dereference")
		}
		return m.callSSA(caller, pos, fn.Fn, args, fn.Env)
	case *ssa.Builtin:
		return m.callBuiltin(caller, pos, fn, args)
	case symInvoke:
		return m.invokeSym(caller, pos, fn.recv, fn.method, args)
	}
	panic(fmt.Sprintf("cannot call %T", fn))
}

func (m *Machine) callSSA(caller *frame, pos token.Pos, fn *ssa.Function, args []Value, env []Value) Value {
	if fn.Parent() == nil {
		name := fn.String()
		if m.path.cli != nil {
			if ext := cliExternals[name]; ext != nil {
				m.stubsHit[name]++
				return ext(m, caller, args)
			}
		}
		if ext := externals[name]; ext != nil {
			m.stubsHit[name]++
			return ext(m, caller, args)
		}
		if strings.HasPrefix(name, "grits/zzvn.") {
			return m.callVN(caller, name[len("grits/zzvn."):], fn, args)
		}
		if m.initRoot != nil && fn.Synthetic == "package initializer" && fn.Pkg != m.initRoot {
			return nil
		}
		if fn.Blocks == nil {
			m.unsupported("no code for function: " + name)
		}
	}
	return m.interp(caller, fn, args, env)
}

func (m *Machine) callSSAPlain(caller *frame, fn *ssa.Function, args []Value) Value {
	return m.interp(caller, fn, args, nil)
}

func (m *Machine) interp(caller *frame, fn *ssa.Function, args []Value, env []Value) Value {
	if fn.TypeParams().Len() > 0 && len(fn.TypeArgs()) == 0 {
		m.unsupported("uninstantiated generic " + fn.String())
	}
	m.funcCount[fn]++
	if m.path.countSub != "" && strings.Contains(fn.Name(), m.path.countSub) {
		m.path.callCount++
	}
	dg := m.cur
	dg.depth++
	if dg.depth > m.lim.Depth {
		m.endPath(OutUnwind, fmt.Sprintf("call depth %d exceeded in %s", m.lim.Depth, fn))
	}
	defer func() { dg.depth-- }()
	info := infoOf(fn)
	fr := &frame{m: m, caller: caller, fn: fn, info: info, g: m.cur}
	fr.env = make([]Value, info.n)
	fr.visits = make([]int, len(fn.Blocks))
	fr.block = fn.Blocks[0]
	for _, l := range fn.Locals {
		cell := new(Value)
		*cell = m.zero(deref(l.Type()))
		fr.set(l, Ptr(cell))
	}
	for i, p := range fn.Params {
		fr.set(p, args[i])
	}
	for i, fv := range fn.FreeVars {
		fr.set(fv, env[i])
	}
	saved := m.cur.fr
	m.cur.fr = fr
	for fr.block != nil {
		m.runFrame(fr)
	}
	m.cur.fr = saved
	return fr.result
}

func deref(t types.Type) types.Type {
	if p, ok := t.Underlying().(*types.Pointer); ok {
		return p.Elem()
	}
	panic("deref of non-pointer " + t.String())
}

func (m *Machine) runFrame(fr *frame) {
	defer func() {
		if fr.block == nil {
			return // normal return
		}
		r := recover()
		if pe, ok := r.(pathEnd); ok {
			panic(pe)
		}
		if _, ok := r.(targetPanic); !ok {
			// interpreter bug or host runtime error: surface it
			panic(r)
		}
		fr.panicking = true
		fr.panicV = r
		m.cur.fr = fr
		fr.runDefers()
		fr.block = fr.fn.Recover
		if fr.block == nil {
			// recovered without a recover block: return zero results
			fr.result = m.zeroResults(fr.fn)
		}
	}()
	for {
		bi := fr.block.Index
		fr.visits[bi]++
		if fr.visits[bi] > m.lim.Loop {
			m.endPath(OutUnwind, fmt.Sprintf("loop bound %d exceeded in %s block %d", m.lim.Loop, fr.fn, bi))
		}
		// phis (parallel assignment)
		if ph := fr.info.phis[bi]; len(ph) > 0 {
			predIndex := -1
			for i, p := range fr.block.Preds {
				if p == fr.prevBlock {
					predIndex = i
					break
				}
			}
			tmp := make([]Value, len(ph))
			for i, p := range ph {
				tmp[i] = fr.get(p.Edges[predIndex])
			}
			for i, p := range ph {
				fr.set(p, tmp[i])
			}
		}
		for _, instr := range fr.info.first[bi] {
			m.instrs++
			if m.instrs > m.lim.Instrs {
				m.endPath(OutUnwind, fmt.Sprintf("instruction budget %d exceeded", m.lim.Instrs))
			}
			if m.trace {
				fmt.Printf("  [%s] %s\n", fr.fn.Name(), instr)
			}
			if m.visitInstr(fr, instr) == kReturn {
				return
			}
		}
	}
}

func (m *Machine) zeroResults(fn *ssa.Function) Value {
	res := fn.Signature.Results()
	switch res.Len() {
	case 0:
		return nil
	case 1:
		return m.zero(res.At(0).Type())
	}
	return m.zero(res)
}

func (fr *frame) runDefer(d *deferred) {
	var ok bool
	defer func() {
		if !ok {
			r := recover()
			if pe, isEnd := r.(pathEnd); isEnd {
				panic(pe)
			}
			if _, isT := r.(targetPanic); !isT {
				panic(r)
			}
			fr.panicking = true
			fr.panicV = r
		}
	}()
	fr.m.call(fr, token.NoPos, d.fn, d.args)
	ok = true
}

func (fr *frame) runDefers() {
	for d := fr.defers; d != nil; d = d.tail {
		fr.runDefer(d)
	}
	fr.defers = nil
	if fr.panicking {
		panic(fr.panicV)
	}
}

func (m *Machine) doRecover(caller *frame) Value {
	if caller != nil && !caller.panicking && caller.caller != nil && caller.caller.panicking {
		caller.caller.panicking = false
		p := caller.caller.panicV
		caller.caller.panicV = nil
		if tp, ok := p.(targetPanic); ok {
			return tp.v
		}
	}
	return Iface{}
}

type continuation int

const (
	kNext continuation = iota
	kReturn
	kJump
)

func (m *Machine) visitInstr(fr *frame, instr ssa.Instruction) continuation {
	switch instr := instr.(type) {
	case *ssa.DebugRef:
	case *ssa.UnOp:
		fr.set(instr, m.unop(instr, fr.get(instr.X)))
	case *ssa.BinOp:
		fr.set(instr, m.binop(instr.Op, instr.X.Type(), fr.get(instr.X), fr.get(instr.Y)))
	case *ssa.Call:
		fn, args := m.prepareCall(fr, &instr.Call)
		fr.set(instr, m.call(fr, instr.Pos(), fn, args))
	case *ssa.ChangeInterface:
		fr.set(instr, fr.get(instr.X))
	case *ssa.ChangeType:
		fr.set(instr, fr.get(instr.X))
	case *ssa.Convert:
		fr.set(instr, m.conv(instr.Type(), instr.X.Type(), fr.get(instr.X)))
	case *ssa.MakeInterface:
		fr.set(instr, Iface{T: instr.X.Type(), V: fr.get(instr.X)})
	case *ssa.Extract:
		fr.set(instr, fr.get(instr.Tuple).(Tuple)[instr.Index])
	case *ssa.Slice:
		fr.set(instr, m.sliceOp(instr, fr.get(instr.X), fr.get(instr.Low), fr.get(instr.High), fr.get(instr.Max)))
	case *ssa.Return:
		switch len(instr.Results) {
		case 0:
		case 1:
			fr.result = fr.get(instr.Results[0])
		default:
			res := make(Tuple, 0, len(instr.Results))
			for _, r := range instr.Results {
				res = append(res, fr.get(r))
			}
			fr.result = res
		}
		fr.block = nil
		return kReturn
	case *ssa.RunDefers:
		fr.runDefers()
	case *ssa.Panic:
		panic(targetPanic{v: fr.get(instr.X)})
	case *ssa.Send:
		if m.schedOn() {
			m.schedSend(fr, fr.get(instr.Chan).(*Chan), fr.get(instr.X))
		} else {
			m.chanSend(fr.get(instr.Chan).(*Chan), fr.get(instr.X))
		}
	case *ssa.Store:
		m.store(fr.get(instr.Addr).(Ptr), fr.get(instr.Val))
	case *ssa.If:
		succ := 1
		if m.branch(fr.get(instr.Cond).(*Term)) {
			succ = 0
		}
		fr.prevBlock, fr.block = fr.block, fr.block.Succs[succ]
		return kJump
	case *ssa.Jump:
		fr.prevBlock, fr.block = fr.block, fr.block.Succs[0]
		return kJump
	case *ssa.Defer:
		fn, args := m.prepareCall(fr, &instr.Call)
		fr.defers = &deferred{fn: fn, args: args, tail: fr.defers}
	case *ssa.Go:
		fn, args := m.prepareCall(fr, &instr.Call)
		if m.schedOn() {
			m.schedSpawn(fr, fn, args)
		} else {
			m.spawn(fn, args)
		}
	case *ssa.MakeChan:
		m.chanSeq++
		nch := &Chan{Cap: int(m.concreteInt(fr.get(instr.Size), "channel size")), ID: m.chanSeq}
		if ct, ok := instr.Type().Underlying().(*types.Chan); ok {
			if nt, ok := ct.Elem().(*types.Named); ok && nt.Obj().Name() == "MonitorUpdate" {
				// the monitor's inbox: a passive logger fed by every process; the order in
				// which updates of different processes arrive is treated as irrelevant
				nch.Unordered = true
			}
		}
		fr.set(instr, nch)
	case *ssa.Alloc:
		var addr Ptr
		if instr.Heap {
			addr = new(Value)
			fr.set(instr, addr)
		} else {
			addr = fr.get(instr).(Ptr)
		}
		*addr = m.zero(deref(instr.Type()))
	case *ssa.MakeSlice:
		c := int(m.concreteInt(fr.get(instr.Cap), "slice cap"))
		l := int(m.concreteInt(fr.get(instr.Len), "slice len"))
		if l < 0 || c < l {
			m.throwRuntime("makeslice: len out of range")
		}
		sl := make([]Value, c)
		tElt := instr.Type().Underlying().(*types.Slice).Elem()
		for i := range sl {
			sl[i] = m.zero(tElt)
		}
		fr.set(instr, Slice{A: sl[:l]})
	case *ssa.MakeMap:
		fr.set(instr, &Map{KeyT: instr.Type().Underlying().(*types.Map).Key()})
	case *ssa.Range:
		fr.set(instr, m.rangeIter(fr.get(instr.X), instr.X.Type()))
	case *ssa.Next:
		fr.set(instr, fr.get(instr.Iter).(*Iter).next(m))
	case *ssa.FieldAddr:
		p := fr.get(instr.X).(Ptr)
		if p == nil {
			m.throwRuntime("invalid memory address or nil pointer dereference")
		}
		fr.set(instr, Ptr(&(*p).(Struct)[instr.Field]))
	case *ssa.Field:
		fr.set(instr, copyVal(fr.get(instr.X).(Struct)[instr.Field]))
	case *ssa.IndexAddr:
		x := fr.get(instr.X)
		switch x := x.(type) {
		case Slice:
			i := m.index(fr.get(instr.Index), len(x.A))
			fr.set(instr, Ptr(&x.A[i]))
		case Ptr:
			if x == nil {
				m.throwRuntime("invalid memory address or nil pointer dereference")
			}
			a := (*x).(Array)
			i := m.index(fr.get(instr.Index), len(a))
			fr.set(instr, Ptr(&a[i]))
		default:
			panic(fmt.Sprintf("unexpected x type in IndexAddr: %T", x))
		}
	case *ssa.Index:
		x := fr.get(instr.X)
		switch x := x.(type) {
		case Array:
			i := m.index(fr.get(instr.Index), len(x))
			fr.set(instr, copyVal(x[i]))
		case Str:
			cs, ok := x.Concrete()
			if !ok {
				m.unsupported("index of symbolic string")
			}
			i := m.index(fr.get(instr.Index), len(cs))
			fr.set(instr, m.ts.BV(uint64(cs[i]), 8))
		default:
			panic(fmt.Sprintf("unexpected x type in Index: %T", x))
		}
	case *ssa.Lookup:
		fr.set(instr, m.lookup(instr, fr.get(instr.X), fr.get(instr.Index)))
	case *ssa.MapUpdate:
		m.mapUpdate(fr.get(instr.Map).(*Map), fr.get(instr.Key), fr.get(instr.Value))
	case *ssa.TypeAssert:
		fr.set(instr, m.typeAssert(instr, fr.get(instr.X)))
	case *ssa.MakeClosure:
		var bindings []Value
		for _, b := range instr.Bindings {
			bindings = append(bindings, fr.get(b))
		}
		fr.set(instr, &Closure{instr.Fn.(*ssa.Function), bindings})
	case *ssa.Select:
		if m.schedOn() {
			fr.set(instr, m.schedSelect(fr, instr))
		} else {
			fr.set(instr, m.selectOp(fr, instr))
		}
	case *ssa.SliceToArrayPointer, *ssa.MultiConvert:
		m.unsupported(fmt.Sprintf("instruction %T", instr))
	default:
		panic(fmt.Sprintf("unexpected instruction: %T", instr))
	}
	return kNext
}

// ---- maps ----

func (m *Machine) mapFind(mp *Map, k Value) int {
	if mp == nil {
		return -1
	}
	if hk, ok := hashKey(k); ok {
		if i, found := mp.idx[hk]; found && !mp.Entries[i].Dead {
			return i
		}
		// not among the concrete keys: only symbolic keys can still match
		for _, i := range mp.symKeys {
			e := &mp.Entries[i]
			if e.Dead {
				continue
			}
			if m.branch(m.equalVals(e.K, k)) {
				return i
			}
		}
		return -1
	}
	for i := range mp.Entries {
		e := &mp.Entries[i]
		if e.Dead {
			continue
		}
		if m.branch(m.equalVals(e.K, k)) {
			return i
		}
	}
	return -1
}

func (m *Machine) lookup(instr *ssa.Lookup, x, idx Value) Value {
	switch x := x.(type) {
	case *Map:
		if m.path.raceOn && x != nil {
			m.raceCell(x, false)
		}
		i := m.mapFind(x, idx)
		var v Value
		ok := i >= 0
		if ok {
			v = copyVal(x.Entries[i].V)
		} else {
			v = m.zero(instr.X.Type().Underlying().(*types.Map).Elem())
		}
		if instr.CommaOk {
			return Tuple{v, m.ts.Bool(ok)}
		}
		return v
	case Str:
		cs, ok := x.Concrete()
		if !ok {
			m.unsupported("index of symbolic string")
		}
		i := m.index(idx, len(cs))
		return m.ts.BV(uint64(cs[i]), 8)
	}
	panic(fmt.Sprintf("unexpected x type in Lookup: %T", x))
}

func (m *Machine) mapUpdate(mp *Map, k, v Value) {
	if mp == nil {
		m.throwRuntime("assignment to entry in nil map")
	}
	if m.frozenM != nil && m.frozenM[mp] {
		m.globalWrite("update of package-level map")
	}
	if m.path.raceOn {
		m.raceCell(mp, true)
	}
	i := m.mapFind(mp, k)
	if i >= 0 {
		mp.Entries[i].V = v
		return
	}
	mp.Entries = append(mp.Entries, mapEntry{K: k, V: v})
	mp.N++
	if hk, ok := hashKey(k); ok {
		if mp.idx == nil {
			mp.idx = map[string]int{}
		}
		mp.idx[hk] = len(mp.Entries) - 1
	} else {
		mp.symKeys = append(mp.symKeys, len(mp.Entries)-1)
	}
}

func (m *Machine) mapDelete(mp *Map, k Value) {
	if mp == nil {
		return
	}
	if m.frozenM != nil && m.frozenM[mp] {
		m.globalWrite("delete from package-level map")
	}
	if m.path.raceOn {
		m.raceCell(mp, true)
	}
	i := m.mapFind(mp, k)
	if i >= 0 {
		mp.Entries[i].Dead = true
		mp.N--
		if hk, ok := hashKey(mp.Entries[i].K); ok {
			delete(mp.idx, hk)
		}
	}
}

// ---- iteration ----

type Iter struct {
	kind int // 0 map, 1 string
	mp   *Map
	i    int
	s    string
	rs   []*Term
	kt   types.Type
	vt   types.Type
}

func (m *Machine) rangeIter(x Value, t types.Type) *Iter {
	switch x := x.(type) {
	case *Map:
		mt := t.Underlying().(*types.Map)
		return &Iter{kind: 0, mp: x, kt: mt.Key(), vt: mt.Elem()}
	case Str:
		if cs, ok := x.Concrete(); ok {
			return &Iter{kind: 1, s: cs}
		}
		m.unsupported("range over symbolic string")
	}
	panic(fmt.Sprintf("cannot range over %T", x))
}

func (it *Iter) next(m *Machine) Value {
	switch it.kind {
	case 0:
		if it.mp != nil {
			for it.i < len(it.mp.Entries) {
				e := it.mp.Entries[it.i]
				it.i++
				if !e.Dead {
					return Tuple{m.ts.True, e.K, copyVal(e.V)}
				}
			}
		}
		return Tuple{m.ts.False, m.zero(it.kt), m.zero(it.vt)}
	default:
		if it.i >= len(it.s) {
			return Tuple{m.ts.False, m.ts.BV(0, 64), m.ts.BV(0, 32)}
		}
		r, sz := utf8Decode(it.s, it.i)
		idx := it.i
		it.i += sz
		return Tuple{m.ts.True, m.ts.BV(uint64(idx), 64), m.ts.BV(uint64(r), 32)}
	}
}
