package gse

import (
	"fmt"
	"go/token"
	"os"
	"runtime/debug"
	"sort"
	"strings"
	"sync"
	"time"

	"golang.org/x/tools/go/ssa"
)

type nondetVar struct {
	kind string // "int","bool","rune"
	t    *Term
	lo   int64
	hi   int64
}

type obsEntry struct {
	key string
	v   Value
}

type knownRegion struct {
	fid string
	r   *Term
}

type pathState struct {
	prefix      []bool
	decisions   []bool
	pos         int
	pc          []*Term
	pcSet       map[*Term]bool
	flushed     int
	nondet      []nondetVar
	events      []string
	obs         []obsEntry
	known       []knownRegion
	pendingEnd  *pathEnd
	hosts       sync.WaitGroup
	forks       []workItem
	item        workItem
	reached     map[string]int
	viol        []Violation
	knownSeen   map[string]int
	queries     int
	expect      map[Outcome]bool // outcomes the harness declared acceptable
	opaqueSeq   int
	outputs     []Str
	assumptions map[string]bool
	watch       map[Ptr]bool
	accesses    []memAccess
	thread      int
	readRunes   int
	lastPanic   string
	cli         *cliState
	vals        map[*Term]*Term
	simpMemo    map[*Term]*Term
	model       map[*Term]*Term
	modelMemo   map[*Term]*Term
	modelN      int
	savedQ      int
	// sched mode
	nodes        []*nodeRec
	newNodes     []nodeReg
	btReq        []btRequest
	sleepAtOwn   [][]sleeper
	trace        []*traceRec
	gclock       map[int][]int
	objs         map[interface{}]*objClocks
	sched        bool
	transSeq     int
	settled      int
	sleep        []sleeper
	schedSteps   int
	schedChoices int
	snapshot     []gInfo
	snapBase     int
	sync         *syncState
	now          int64   // virtual time (ns): advances only when no goroutine can run
	deadlines    []int64 // pending sleeps / timers
	countSub     string
	callCount    int
	raceOn       bool
	races        []string
	shadows      map[interface{}]*shadow
}

// Violation is a candidate counterexample (to be replayed natively before it is reported).
type Violation struct {
	Harness string   `json:"harness"`
	Assert  string   `json:"assert"`
	Kind    string   `json:"kind"` // assert | panic | unwind | blocked | exit
	Msg     string   `json:"msg"`
	Vector  []int64  `json:"vector"`
	Known   string   `json:"known,omitempty"`
	Obs     []string `json:"obs,omitempty"`
}

// Sample is a solver model of a completed path, replayed natively for translator validation.
type Sample struct {
	Harness string   `json:"harness"`
	Vector  []int64  `json:"vector"`
	Outcome string   `json:"outcome"`
	Obs     []string `json:"obs"`
	Reach   []string `json:"reach"`
}

type PathResult struct {
	Outcome   Outcome
	Msg       string
	Decisions int
	Forks     []workItem
	NewNodes  []nodeReg
	BT        []btRequest
	Viol      []Violation
	KnownSeen map[string]int
	Reached   map[string]int
	Sample    *Sample
	Instrs    int
	Events    []string
}

func (m *Machine) addPC(c *Term) {
	p := m.path
	if c.IsConst() {
		if !c.B {
			m.endPath(OutAssume, "false added to path condition")
		}
		return
	}
	if p.pcSet[c] {
		return
	}
	p.pc = append(p.pc, c)
	m.notePC(c)
	if p.model != nil {
		if v, ok := m.evalModel(c); !ok || !v {
			p.model, p.modelMemo = nil, nil
		}
	}
}

func (m *Machine) notePC(c *Term) {
	p := m.path
	p.pcSet[c] = true
	p.simpMemo = nil
	switch c.Op {
	case OEq:
		// var = const: remember the value so later terms fold
		a, b := c.Args[0], c.Args[1]
		if a.Op == OVar && b.IsConst() {
			p.vals[a] = b
		} else if b.Op == OVar && a.IsConst() {
			p.vals[b] = a
		}
	case OVar:
		p.vals[c] = m.ts.True
	}
	switch c.Op {
	case OAnd:
		m.notePC(c.Args[0])
		m.notePC(c.Args[1])
	case ONot:
		if o := c.Args[0]; o.Op == OOr {
			m.notePC(m.ts.Not(o.Args[0]))
			m.notePC(m.ts.Not(o.Args[1]))
		} else if o.Op == OVar {
			p.vals[o] = m.ts.False
		}
	}
}

// simp rewrites t under the literals and variable values the path condition has fixed.
func (m *Machine) simp(t *Term) *Term {
	p := m.path
	if t.Op == OConst {
		return t
	}
	if len(p.vals) == 0 && len(p.pcSet) == 0 {
		return t
	}
	if p.simpMemo == nil {
		p.simpMemo = map[*Term]*Term{}
	}
	return m.simpRec(t, p.vals, p.simpMemo, true)
}

// evalModel evaluates t under the cached model; ok only if it folds to a constant.
func (m *Machine) evalModel(t *Term) (bool, bool) {
	p := m.path
	if p.model == nil {
		return false, false
	}
	r := m.simpRec(t, p.model, p.modelMemo, false)
	if r.IsConst() && r.Sort == SBool {
		return r.B, true
	}
	return false, false
}

// fetchModel caches the model of the last Sat answer (values of all nondeterministic inputs).
func (m *Machine) fetchModel() {
	p := m.path
	p.model, p.modelMemo = nil, nil
	if len(p.nondet) == 0 {
		return
	}
	ts := make([]*Term, len(p.nondet))
	for i, n := range p.nondet {
		ts[i] = n.t
	}
	vals, ok := m.sol.GetValues(ts)
	if !ok {
		return
	}
	p.model = map[*Term]*Term{}
	p.modelMemo = map[*Term]*Term{}
	p.modelN = len(p.nondet)
	for i, v := range vals {
		switch v.Sort {
		case SBool:
			p.model[ts[i]] = m.ts.Bool(v.B)
		case SBV:
			p.model[ts[i]] = m.ts.BV(v.I, v.W)
		}
	}
}

func (m *Machine) simpRec(t *Term, vals map[*Term]*Term, memo map[*Term]*Term, usePC bool) *Term {
	p := m.path
	switch t.Op {
	case OConst:
		return t
	case OVar:
		if v, ok := vals[t]; ok {
			return v
		}
		return t
	}
	if r, ok := memo[t]; ok {
		return r
	}
	if usePC && t.Sort == SBool {
		if p.pcSet[t] {
			memo[t] = m.ts.True
			return m.ts.True
		}
		if p.pcSet[m.ts.Not(t)] {
			memo[t] = m.ts.False
			return m.ts.False
		}
	}
	args := make([]*Term, len(t.Args))
	changed := false
	for i, a := range t.Args {
		args[i] = m.simpRec(a, vals, memo, usePC)
		if args[i] != a {
			changed = true
		}
	}
	r := t
	if changed {
		ts := m.ts
		switch t.Op {
		case ONot:
			r = ts.Not(args[0])
		case OAnd:
			r = ts.And(args[0], args[1])
		case OOr:
			r = ts.Or(args[0], args[1])
		case OIte:
			r = ts.Ite(args[0], args[1], args[2])
		case OEq:
			r = ts.Eq(args[0], args[1])
		case OAdd, OSub, OMul, OUDiv, OURem, OSDiv, OSRem, OBAnd, OBOr, OBXor, OShl, OLShr, OAShr:
			r = ts.BinBV(t.Op, args[0], args[1])
		case OULt, OULe, OSLt, OSLe:
			r = ts.CmpBV(t.Op, args[0], args[1])
		case ONeg:
			r = ts.Neg(args[0])
		case OBNot:
			r = ts.BNot(args[0])
		case OZext:
			r = ts.Resize(args[0], t.W, false)
		case OSext:
			r = ts.Resize(args[0], t.W, true)
		case OTrunc:
			r = ts.Resize(args[0], t.W, false)
		case OConcat:
			r = ts.Concat(args...)
		case OStrLen:
			r = ts.StrLen(args[0])
		case OStrIsIdent:
			r = ts.StrIsIdent(args[0])
		}
	}
	memo[t] = r
	return r
}

// implied returns (value, true) when the path condition syntactically decides c.
func (m *Machine) implied(c *Term) (bool, bool) {
	p := m.path
	if p.pcSet[c] {
		return true, true
	}
	if p.pcSet[m.ts.Not(c)] {
		return false, true
	}
	return false, false
}

func (m *Machine) flush() {
	p := m.path
	for p.flushed < len(p.pc) {
		m.sol.Assert(p.pc[p.flushed])
		p.flushed++
	}
}

func (m *Machine) check(extra ...*Term) SatResult {
	m.flush()
	m.path.queries++
	r := m.sol.CheckWith(extra...)
	if r == Unknown {
		msg := "solver answered unknown"
		if n := len(m.sol.Errors); n > 0 {
			msg += ": " + m.sol.Errors[n-1]
		}
		m.endPath(OutInconclusive, msg)
	}
	return r
}

func (m *Machine) replaying() bool { return m.path.pos < len(m.path.prefix) }

type summaryFork struct{}

func (m *Machine) branch(c *Term) bool {
	if c.IsConst() {
		return c.B
	}
	c = m.simp(c)
	if c.IsConst() {
		return c.B
	}
	if v, ok := m.implied(c); ok {
		return v
	}
	if m.noForkDepth > 0 {
		panic(summaryFork{})
	}
	p := m.path
	if p.pos < len(p.prefix) {
		d := p.prefix[p.pos]
		p.pos++
		p.decisions = append(p.decisions, d)
		if d {
			m.addPC(c)
		} else {
			m.addPC(m.ts.Not(c))
		}
		return d
	}
	nc := m.ts.Not(c)
	mv, mok := m.evalModel(c)
	if mok && mv {
		// the cached model already witnesses c; only the other side needs the solver
		p.savedQ++
		if m.check(nc) == Unsat {
			p.decisions = append(p.decisions, true)
			m.addPC(c)
			return true
		}
	} else if mok && !mv {
		p.savedQ++
		if m.check(c) == Unsat {
			p.decisions = append(p.decisions, false)
			m.addPC(nc)
			return false
		}
		m.fetchModel()
	} else {
		if m.check(c) == Unsat {
			p.decisions = append(p.decisions, false)
			m.addPC(nc)
			return false
		}
		m.fetchModel()
		if m.check(nc) == Unsat {
			p.decisions = append(p.decisions, true)
			m.addPC(c)
			return true
		}
	}
	sib := make([]bool, len(p.decisions)+1)
	copy(sib, p.decisions)
	sib[len(p.decisions)] = false
	p.pushFork(sib)
	p.decisions = append(p.decisions, true)
	m.addPC(c)
	return true
}

// pushFork queues a sibling path (same schedule-exploration context as the current one).
func (p *pathState) pushFork(sib []bool) {
	it := workItem{prefix: sib}
	if len(p.sleepAtOwn) > 0 {
		it.sleepAt = append([][]sleeper(nil), p.sleepAtOwn...)
	}
	p.forks = append(p.forks, it)
}

// freeBranch is a scheduler-level nondeterministic choice (no solver involved).
func (m *Machine) freeBranch() bool {
	p := m.path
	if p.pos < len(p.prefix) {
		d := p.prefix[p.pos]
		p.pos++
		p.decisions = append(p.decisions, d)
		return d
	}
	sib := make([]bool, len(p.decisions)+1)
	copy(sib, p.decisions)
	p.pushFork(sib)
	p.decisions = append(p.decisions, true)
	return true
}

// assume restricts the path; ends it if infeasible.
func (m *Machine) assume(c *Term) {
	if c.IsConst() {
		if !c.B {
			m.endPath(OutAssume, "assumption false")
		}
		return
	}
	if v, ok := m.implied(c); ok {
		if !v {
			m.endPath(OutAssume, "assumption contradicts path")
		}
		return
	}
	if !m.replaying() {
		if v, ok := m.evalModel(c); !(ok && v) {
			if m.check(c) == Unsat {
				m.endPath(OutAssume, "assumption infeasible")
			}
			m.fetchModel()
		}
	}
	m.addPC(c)
}

func (m *Machine) openRegions() *Term {
	r := m.ts.False
	for _, k := range m.path.known {
		r = m.ts.Or(r, k.r)
	}
	return r
}

func (m *Machine) knownIDs() string {
	var ids []string
	seen := map[string]bool{}
	for _, k := range m.path.known {
		if !seen[k.fid] {
			seen[k.fid] = true
			ids = append(ids, k.fid)
		}
	}
	return strings.Join(ids, ",")
}

// report classifies a failure condition `bad` (under the current path condition) as a new
// violation and/or a listed known finding.
func (m *Machine) report(kind, id, msg string, bad *Term) {
	p := m.path
	R := m.openRegions()
	if m.check(bad, m.ts.Not(R)) == Sat {
		if p.lastPanic != "" && kind == "assert" {
			msg += " [last panic caught by vn.Try: " + p.lastPanic + "]"
		}
		v := Violation{Harness: m.curHarness, Assert: id, Kind: kind, Msg: msg}
		v.Vector = m.modelVector()
		v.Obs = m.modelObs()
		p.viol = append(p.viol, v)
	}
	if len(p.known) > 0 {
		for _, k := range p.known {
			if m.check(bad, k.r) == Sat {
				p.knownSeen[k.fid+" "+id]++
				if m.P.WantKnownVectors {
					v := Violation{Harness: m.curHarness, Assert: id, Kind: kind, Msg: msg, Known: k.fid}
					v.Vector = m.modelVector()
					p.viol = append(p.viol, v)
				}
			}
		}
	}
}

func (m *Machine) vnAssert(id string, c *Term) {
	p := m.path
	if m.replaying() {
		// already checked on the parent path with the identical path condition
		if !c.IsConst() {
			if v, ok := m.implied(c); !(ok && v) {
				m.addPC(c)
			}
		} else if !c.B {
			m.endPath(OutAssume, "assert failed on whole path (reported by parent)")
		}
		return
	}
	p.reached[id]++
	c = m.simp(c)
	if c.IsConst() && c.B {
		return
	}
	if v, ok := m.implied(c); ok && v {
		return
	}
	m.report("assert", id, "assertion "+id+" can fail", m.ts.Not(c))
	// continue under the assumption that it holds
	if c.IsConst() {
		m.endPath(OutAssume, "assert failed on whole path")
	}
	if v, ok := m.evalModel(c); !(ok && v) {
		if m.check(c) == Unsat {
			m.endPath(OutAssume, "assert failed on whole path")
		}
		m.fetchModel()
	}
	m.addPC(c)
}

func (m *Machine) modelVector() []int64 {
	p := m.path
	ts := make([]*Term, len(p.nondet))
	for i, n := range p.nondet {
		ts[i] = n.t
	}
	vals, ok := m.sol.GetValues(ts)
	if !ok {
		m.endPath(OutInconclusive, "model extraction failed")
	}
	out := make([]int64, len(vals))
	for i, v := range vals {
		switch v.Sort {
		case SBool:
			if v.B {
				out[i] = 1
			}
		case SBV:
			out[i] = sext64(v.I, v.W)
		}
	}
	return out
}

func (m *Machine) modelObs() []string {
	p := m.path
	var ts []*Term
	var idx []int
	out := make([]string, len(p.obs))
	for i, o := range p.obs {
		switch v := o.v.(type) {
		case *Term:
			if v.IsConst() {
				out[i] = o.key + "=" + ModelVal{Sort: v.Sort, B: v.B, I: v.I, W: v.W, S: v.S}.String()
			} else {
				ts = append(ts, v)
				idx = append(idx, i)
			}
		case Str:
			if s, ok := v.Concrete(); ok {
				out[i] = o.key + "=" + fmt.Sprintf("%q", s)
			} else if !v.hasRune() {
				ts = append(ts, m.strTerm(v))
				idx = append(idx, i)
			} else {
				// rune rope: evaluate rune by rune
				out[i] = o.key + "=?"
				rs := m.strRunes(v)
				vals, ok := m.sol.GetValues(rs)
				if ok {
					var sb strings.Builder
					for _, mv := range vals {
						sb.WriteRune(rune(int32(mv.I)))
					}
					out[i] = o.key + "=" + fmt.Sprintf("%q", sb.String())
				}
			}
		default:
			out[i] = o.key + "=?"
		}
	}
	if len(ts) > 0 {
		vals, ok := m.sol.GetValues(ts)
		if ok {
			for j, v := range vals {
				out[idx[j]] = p.obs[idx[j]].key + "=" + v.String()
			}
		}
	}
	return out
}

// concreteVector: the values of the nondeterministic inputs when they are all pinned by the path
// condition (menu harnesses); symbolic ones print as -1.
func (m *Machine) concreteVector() []int64 {
	var out []int64
	for _, nv := range m.path.nondet {
		t := m.simp(nv.t)
		if t.IsConst() {
			out = append(out, int64(t.I))
		} else {
			out = append(out, -1)
		}
	}
	return out
}

// RunPath executes one harness path following prefix.
func (m *Machine) RunPath(h *HarnessSpec, item workItem, wantSample bool) (res PathResult) {
	prefix := item.prefix
	p := &pathState{prefix: prefix, item: item, pcSet: map[*Term]bool{}, reached: map[string]int{}, knownSeen: map[string]int{}, expect: map[Outcome]bool{}, assumptions: map[string]bool{}, vals: map[*Term]*Term{}}
	m.path = p
	if m.P.ReinitGlobals {
		// C19: package-level state may be written by the code under test; every path starts
		// from freshly initialised globals so that paths do not influence each other
		saved := m.funcCount
		if err := m.initGlobals(); err != nil {
			return PathResult{Outcome: OutInconclusive, Msg: err.Error()}
		}
		m.funcCount = saved
		m.path = p
	}
	m.depth = 0
	m.instrs = 0
	m.chanSeq = 0
	m.noForkDepth = 0
	m.lim = h.Limits
	m.curHarness = h.Name
	main := &goroutine{id: 0, started: true, isMain: true, resume: make(chan resumeMsg, 1)}
	m.gor = []*goroutine{main}
	m.cur = main
	m.sol.Push()
	outcome, msg := OutOK, ""
	func() {
		defer func() {
			r := recover()
			if r == nil {
				return
			}
			switch r := r.(type) {
			case pathEnd:
				outcome, msg = r.kind, r.msg
			case targetPanic:
				outcome, msg = OutPanic, m.panicText(r)
			case summaryFork:
				outcome, msg = OutInconclusive, "fork escaped summary"
			default:
				outcome, msg = OutInconclusive, fmt.Sprintf("engine error: %v @ %s", r, shortStack(debug.Stack()))
			}
		}()
		m.call(nil, token.NoPos, h.Fn, nil)
	}()
	m.cur = main
	// classify failing outcomes against known-finding regions (while the solver scope is live)
	func() {
		defer func() {
			if r := recover(); r != nil {
				if pe, ok := r.(pathEnd); ok {
					outcome, msg = pe.kind, pe.msg
				} else {
					outcome, msg = OutInconclusive, fmt.Sprintf("engine error at path end: %v", r)
				}
			}
		}()
		switch outcome {
		case OutPanic, OutUnwind, OutBlocked, OutExit, OutGlobalWrite:
			if !p.expect[outcome] && !(len(p.prefix) > 0 && p.pos < len(p.prefix)) {
				m.report(outcome.String(), "no-"+outcome.String(), msg, m.ts.True)
			}
		}
		if wantSample && (outcome == OutOK || outcome == OutPanic) {
			if m.check() == Sat {
				s := &Sample{Harness: h.Name, Vector: m.modelVector(), Outcome: outcome.String(), Obs: m.modelObs()}
				for id := range p.reached {
					s.Reach = append(s.Reach, id)
				}
				sort.Strings(s.Reach)
				res.Sample = s
			}
		}
	}()
	if f := os.Getenv("GSE_OUTCOMES"); f != "" && outcome != OutPruned && outcome != OutAssume {
		// debugging aid: one line per complete path (printed output in order + outcome + nondet picks)
		line := fmt.Sprintf("%s %v %s |", h.Name, m.concreteVector(), outcome)
		for _, e := range p.events {
			if strings.HasPrefix(e, "OUT ") {
				line += " " + strings.TrimSpace(e[4:])
			} else if os.Getenv("GSE_OUTCOMES_FULL") != "" && (strings.HasPrefix(e, "T ")) {
				line += " " + e[2:]
			}
		}
		for _, v := range p.viol {
			line += " !" + v.Assert
		}
		if fh, err := os.OpenFile(f, os.O_APPEND|os.O_CREATE|os.O_WRONLY, 0644); err == nil {
			fh.WriteString(line + "\n")
			fh.Close()
		}
	}
	m.killGoroutines()
	m.sol.PopAll()
	res.Outcome, res.Msg = outcome, msg
	res.Decisions = len(p.decisions)
	if p.sched || len(p.nodes) > 0 {
		m.dporPathEnd()
	}
	res.Forks = p.forks
	res.NewNodes = p.newNodes
	res.BT = p.btReq
	res.Viol = p.viol
	res.KnownSeen = p.knownSeen
	res.Reached = p.reached
	res.Instrs = m.instrs
	res.Events = p.events
	return
}

// ---- exploration driver ----

type HarnessSpec struct {
	Name      string
	Fn        *ssa.Function
	Limits    Limits
	MaxPaths  int
	StopAfter int // candidates outside the known regions after which the sweep stops (default 6)
}

type HarnessResult struct {
	Name                string
	Paths               int
	ByOutcome           map[string]int
	Decisions           int
	Queries             int
	SolverS             float64
	Viol                []Violation
	KnownSeen           map[string]int
	Reached             map[string]int
	Samples             []Sample
	Problems            []string // unsupported / inconclusive messages (dedup)
	Instrs              int
	WallS               float64
	Truncated           bool
	StoppedOnViolations bool
	Funcs               map[string]int
	Stubs               map[string]int
	MaxDepth            int
}

func Explore(P *Program, h *HarnessSpec, workers int, sampleEvery int, maxSamples int) *HarnessResult {
	t0 := time.Now()
	res := &HarnessResult{Name: h.Name, ByOutcome: map[string]int{}, KnownSeen: map[string]int{}, Reached: map[string]int{}, Funcs: map[string]int{}, Stubs: map[string]int{}}
	var mu sync.Mutex
	cond := sync.NewCond(&mu)
	frontier := []workItem{{}}
	dnodes := map[string]*dporNode{}
	active := 0
	problems := map[string]int{}
	violPerID := map[string]int{}
	var wg sync.WaitGroup
	stopProg := make(chan struct{})
	if os.Getenv("GSE_PROGRESS") != "" {
		go func() {
			for {
				select {
				case <-stopProg:
					return
				case <-time.After(5 * time.Second):
					mu.Lock()
					fmt.Fprintf(os.Stderr, "[%s] %.0fs paths=%d frontier=%d active=%d outcomes=%v instrs=%d\n", h.Name, time.Since(t0).Seconds(), res.Paths, len(frontier), active, res.ByOutcome, res.Instrs)
					mu.Unlock()
				}
			}
		}()
	}
	for w := 0; w < workers; w++ {
		wg.Add(1)
		go func(w int) {
			defer wg.Done()
			m, err := NewMachine(P)
			if err != nil {
				mu.Lock()
				problems["machine: "+err.Error()]++
				mu.Unlock()
				return
			}
			defer m.Close()
			n := 0
			for {
				mu.Lock()
				for len(frontier) == 0 && active > 0 {
					cond.Wait()
				}
				if len(frontier) == 0 || res.Truncated || res.StoppedOnViolations {
					mu.Unlock()
					cond.Broadcast()
					break
				}
				prefix := frontier[len(frontier)-1]
				frontier = frontier[:len(frontier)-1]
				active++
				mu.Unlock()

				n++
				want := sampleEvery > 0 && n%sampleEvery == 1%sampleEvery
				pr := m.RunPath(h, prefix, want)
				_ = dnodes

				mu.Lock()
				active--
				res.Paths++
				res.ByOutcome[pr.Outcome.String()]++
				res.Decisions += pr.Decisions
				res.Instrs += pr.Instrs
				if pr.Decisions > res.MaxDepth {
					res.MaxDepth = pr.Decisions
				}
				for _, f := range pr.Forks {
					frontier = append(frontier, f)
				}
				for _, nr := range pr.NewNodes {
					if dnodes[nr.key] == nil {
						dnodes[nr.key] = &dporNode{scheduled: []sleeper{nr.chosen}}
					}
				}
				for _, bt := range pr.BT {
					dn := dnodes[bt.key]
					if dn == nil {
						continue
					}
					dup := false
					for _, s := range dn.scheduled {
						if s.t == bt.alt.t {
							dup = true
						}
					}
					if dup {
						continue
					}
					sleepAdd := append([]sleeper(nil), dn.scheduled...)
					dn.scheduled = append(dn.scheduled, bt.alt)
					it := workItem{prefix: bt.prefix}
					it.sleepAt = append(append([][]sleeper(nil), bt.sleepAt...), sleepAdd)
					frontier = append(frontier, it)
				}
				for _, v := range pr.Viol {
					k := v.Assert + "|" + v.Known
					violPerID[k]++
					if violPerID[k] <= 3 {
						res.Viol = append(res.Viol, v)
					}
				}
				for k, c := range pr.KnownSeen {
					res.KnownSeen[k] += c
				}
				for k, c := range pr.Reached {
					res.Reached[k] += c
				}
				if pr.Sample != nil && len(res.Samples) < maxSamples {
					res.Samples = append(res.Samples, *pr.Sample)
				}
				switch pr.Outcome {
				case OutUnsupported, OutInconclusive:
					problems[pr.Outcome.String()+": "+pr.Msg]++
				}
				if h.MaxPaths > 0 && res.Paths >= h.MaxPaths && len(frontier) > 0 {
					res.Truncated = true
				}
				// enough counterexample candidates outside the known regions: the verdict of
				// this harness is decided by their native replay, no need to finish the sweep
				nv := 0
				for _, v := range res.Viol {
					if v.Known == "" {
						nv++
					}
				}
				stopAfter := h.StopAfter
				if stopAfter == 0 {
					stopAfter = 6
				}
				if nv >= stopAfter && len(frontier) > 0 {
					res.StoppedOnViolations = true
				}
				mu.Unlock()
				cond.Broadcast()
			}
			mu.Lock()
			res.Queries += m.sol.Queries
			res.SolverS += m.sol.Time.Seconds()
			for f, c := range m.funcCount {
				res.Funcs[f.String()] += c
			}
			for s, c := range m.stubsHit {
				res.Stubs[s] += c
			}
			mu.Unlock()
		}(w)
	}
	wg.Wait()
	close(stopProg)
	for k, c := range problems {
		res.Problems = append(res.Problems, fmt.Sprintf("%s (x%d)", k, c))
	}
	sort.Strings(res.Problems)
	res.WallS = time.Since(t0).Seconds()
	return res
}

// shortStack keeps the first few gse frames of a Go stack trace.
func shortStack(b []byte) string {
	var out []string
	for _, l := range strings.Split(string(b), "\n") {
		l = strings.TrimSpace(l)
		if strings.HasPrefix(l, "/verif/engine/") {
			out = append(out, l[len("/verif/engine/"):])
			if len(out) >= 6 {
				break
			}
		}
	}
	return strings.Join(out, " < ")
}
