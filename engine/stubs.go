package gse

import (
	"fmt"
	"go/token"
	"go/types"
	"strconv"
	"strings"

	"golang.org/x/tools/go/ssa"
)

type externalFn func(m *Machine, caller *frame, args []Value) Value

var externals map[string]externalFn

func init() {
	externals = map[string]externalFn{
		"(*bytes.Buffer).WriteString": extBufWriteString,
		"(*bytes.Buffer).WriteRune":   extBufWriteRune,
		"(*bytes.Buffer).WriteByte":   extBufWriteByte,
		"(*bytes.Buffer).String":      extBufString,
		"(*bytes.Buffer).Reset":       extBufReset,
		"(*bytes.Buffer).Len":         extBufLen,
		"(*bytes.Buffer).Bytes":       extBufBytes,
		"fmt.Sprintf":                 extSprintf,
		"fmt.Errorf":                  extErrorf,
		"fmt.Sprint":                  extSprint,
		"fmt.Printf":                  extPrintf,
		"fmt.Print":                   extPrint,
		"fmt.Println":                 extPrintln,
		"fmt.Fprintf":                 extFprintf,
		"fmt.Fprintln":                extFprintln,
		"log.Fatal":                   extLogFatal,
		"log.Fatalf":                  extLogFatal,
		"log.Println":                 extNop,
		"log.Printf":                  extNop,
		"os.Exit":                     extOsExit,
		"reflect.TypeOf":              extReflectTypeOf,
		"strings.ToLower":             extToLower,
		"strings.Repeat":              extRepeat,
		"strings.Index":               extStringsIndex,
		"strings.LastIndex":           extStringsLastIndex,
		"strings.Contains":            extStringsContains,
		"strings.IndexByte":           extStringsIndexByte,
		"strings.HasPrefix":           extStringsHasPrefix,
		"strings.HasSuffix":           extStringsHasSuffix,
		"strings.EqualFold":           extStringsEqualFold,
		"strings.TrimSpace":           concreteStrFn("TrimSpace", strings.TrimSpace),
		"strings.ToUpper":             concreteStrFn("ToUpper", strings.ToUpper),
		"strings.Title":               concreteStrFn("Title", strings.Title),
		"strconv.Itoa":                extItoa,
		"strconv.FormatUint":          extFormatUint,
		"sync/atomic.AddUint64":       extAtomicAdd64,
		"sync/atomic.LoadUint64":      extAtomicLoad64,
		"time.Sleep":                  extTimeSleep,
		"time.After":                  extTimeAfter,
		"time.Now":                    extTimeNow,
		"time.Since":                  extTimeSince,
		"runtime.NumCPU":              func(m *Machine, c *frame, a []Value) Value { return m.ts.BV(4, 64) },
		"runtime.Gosched":             extNop,
		"strings.NewReader":           extStringsNewReader,
		"bufio.NewReader":             extBufioNewReader,
		"(*bufio.Reader).ReadRune":    extReadRune,
		"(*bufio.Reader).UnreadRune":  extUnreadRune,
		"(*bufio.Reader).Reset":       extBufioReset,
		"context.WithCancel":          extCtxWithCancel,
		"(*grits/process.RuntimeEnvironment).HeartbeatReceiver": extHeartbeatReceiver,
		"(*sync.Once).Do":           extOnceDo,
		"(*sync.WaitGroup).Add":     extWGAdd,
		"(*sync.WaitGroup).Done":    extWGDone,
		"(*sync.WaitGroup).Wait":    extWGWait,
		"(*sync.RWMutex).Lock":      extMutexLock,
		"(*sync.RWMutex).Unlock":    extMutexUnlock,
		"(*sync.RWMutex).RLock":     extMutexRLock,
		"(*sync.RWMutex).RUnlock":   extMutexRUnlock,
		"(*sync.Mutex).Lock":        extMutexLock,
		"(*sync.Mutex).Unlock":      extMutexUnlock,
		"(*sync.Map).Load":          extSyncMapLoad,
		"(*sync.Map).Store":         extSyncMapStore,
		"(*sync.Map).LoadOrStore":   extSyncMapLoadOrStore,
		"(*sync.Map).Delete":        extSyncMapDelete,
		"(*sync.Map).LoadAndDelete": extSyncMapLoadAndDelete,
		"(*sync.Map).Range":         extSyncMapRange,
		"(*sync.Pool).Get":          extPoolGet,
		"(*sync.Pool).Put":          extPoolPut,
		"sync/atomic.AddInt32":      extAtomicAdd64,
		"sync/atomic.AddInt64":      extAtomicAdd64,
		"sync/atomic.AddUint32":     extAtomicAdd64,
		"sync/atomic.LoadInt32":     extAtomicLoad64,
		"sync/atomic.LoadInt64":     extAtomicLoad64,
		"sync/atomic.LoadUint32":    extAtomicLoad64,
		"sync/atomic.StoreInt32":    extAtomicStore,
		"sync/atomic.StoreInt64":    extAtomicStore,
		"sync/atomic.StoreUint32":   extAtomicStore,
		"sync/atomic.StoreUint64":   extAtomicStore,
	}
}

func extNop(m *Machine, caller *frame, args []Value) Value { return nil }

// ---- bytes.Buffer: the rope lives in field 0 of the real struct ----

func bufCell(m *Machine, recv Value) *Value {
	p := recv.(Ptr)
	if p == nil {
		m.throwRuntime("invalid memory address or nil pointer dereference")
	}
	return &(*p).(Struct)[0]
}

func bufGet(m *Machine, recv Value) Str {
	c := bufCell(m, recv)
	if s, ok := (*c).(Str); ok {
		return s
	}
	return Str{}
}

func extBufWriteString(m *Machine, caller *frame, args []Value) Value {
	c := bufCell(m, args[0])
	s := args[1].(Str)
	*c = concatStr(bufGet(m, args[0]), s)
	return Tuple{m.strLen(s), Iface{}}
}

func extBufWriteRune(m *Machine, caller *frame, args []Value) Value {
	c := bufCell(m, args[0])
	r := args[1].(*Term)
	var s Str
	if r.IsConst() {
		s = mkStr(decodeRuneStr(rune(int32(r.I))))
	} else {
		s = Str{[]spart{{r: r}}}
	}
	*c = concatStr(bufGet(m, args[0]), s)
	return Tuple{m.strLen(s), Iface{}}
}

func extBufWriteByte(m *Machine, caller *frame, args []Value) Value {
	c := bufCell(m, args[0])
	b := args[1].(*Term)
	if !b.IsConst() {
		m.unsupported("WriteByte of symbolic byte")
	}
	*c = concatStr(bufGet(m, args[0]), mkStr(string([]byte{byte(b.I)})))
	return Iface{}
}

func extBufString(m *Machine, caller *frame, args []Value) Value {
	if p := args[0].(Ptr); p == nil {
		return mkStr("<nil>")
	}
	return bufGet(m, args[0])
}

func extBufReset(m *Machine, caller *frame, args []Value) Value {
	*bufCell(m, args[0]) = Str{}
	return nil
}

func extBufLen(m *Machine, caller *frame, args []Value) Value {
	return m.strLen(bufGet(m, args[0]))
}

func extBufBytes(m *Machine, caller *frame, args []Value) Value {
	s, ok := bufGet(m, args[0]).Concrete()
	if !ok {
		m.unsupported("Bytes of symbolic buffer")
	}
	out := make([]Value, len(s))
	for i := 0; i < len(s); i++ {
		out[i] = m.ts.BV(uint64(s[i]), 8)
	}
	return Slice{A: out}
}

// ---- fmt ----

func (m *Machine) opaqueStr(why string) Str {
	m.path.opaqueSeq++
	return Str{[]spart{{t: m.ts.Var(fmt.Sprintf("opaque_%s_%d", why, m.path.opaqueSeq), SStr, 0)}}}
}

// fmtValue renders one operand the way %v / %s / %d would for the value kinds Grits formats.
func (m *Machine) fmtValue(caller *frame, v Value, verb byte) Str {
	switch v := v.(type) {
	case Iface:
		if v.T == nil {
			if verb == 's' {
				return mkStr("%!s(<nil>)")
			}
			return mkStr("<nil>")
		}
		// error / Stringer
		if verb == 's' || verb == 'v' || verb == 'q' {
			for _, name := range []string{"Error", "String"} {
				sel := m.P.Prog.MethodSets.MethodSet(v.T).Lookup(nil, name)
				if sel == nil {
					continue
				}
				if f := m.P.Prog.MethodValue(sel); f != nil && f.Signature.Params().Len() == 0 && f.Signature.Results().Len() == 1 && isString(f.Signature.Results().At(0).Type()) {
					r := m.call(caller, token.NoPos, f, []Value{v.V})
					return r.(Str)
				}
			}
		}
		return m.fmtValue(caller, v.V, verb)
	case *SymIface:
		return m.opaqueStr("fmt")
	case Str:
		if verb == 'q' {
			if s, ok := v.Concrete(); ok {
				return mkStr(strconv.Quote(s))
			}
			return concatStr(concatStr(mkStr("\""), v), mkStr("\""))
		}
		return v
	case *Term:
		if v.Sort == SBool {
			if v.IsConst() {
				return mkStr(strconv.FormatBool(v.B))
			}
			return m.opaqueStr("fmt")
		}
		if v.IsConst() {
			if verb == 'c' {
				return mkStr(string(rune(v.I)))
			}
			// signedness unknown here; Grits only formats small non-negative numbers
			return mkStr(strconv.FormatInt(sext64(v.I, v.W), 10))
		}
		return m.opaqueStr("fmt")
	case float64:
		return mkStr(strconv.FormatFloat(v, 'g', -1, 64))
	case Ptr:
		if v == nil {
			return mkStr("<nil>")
		}
		return mkStr("0xc000000000")
	case nil:
		return mkStr("<nil>")
	}
	return m.opaqueStr("fmt")
}

func (m *Machine) sprintf(caller *frame, format Str, args []Value) Str {
	f, ok := format.Concrete()
	if !ok {
		return m.opaqueStr("fmt")
	}
	var out Str
	ai := 0
	for i := 0; i < len(f); i++ {
		c := f[i]
		if c != '%' {
			j := i
			for j < len(f) && f[j] != '%' {
				j++
			}
			out = concatStr(out, mkStr(f[i:j]))
			i = j - 1
			continue
		}
		i++
		if i >= len(f) {
			out = concatStr(out, mkStr("%!(NOVERB)"))
			break
		}
		// flags / width: skip
		for i < len(f) && strings.IndexByte("+-# 0123456789.", f[i]) >= 0 {
			i++
		}
		if i >= len(f) {
			break
		}
		verb := f[i]
		if verb == '%' {
			out = concatStr(out, mkStr("%"))
			continue
		}
		if ai >= len(args) {
			out = concatStr(out, mkStr("%!"+string(verb)+"(MISSING)"))
			continue
		}
		out = concatStr(out, m.fmtValue(caller, args[ai], verb))
		ai++
	}
	return out
}

func variadic(v Value) []Value {
	if v == nil {
		return nil
	}
	return v.(Slice).A
}

func extSprintf(m *Machine, caller *frame, args []Value) Value {
	return m.sprintf(caller, args[0].(Str), variadic(args[1]))
}

func (m *Machine) newError(s Str) Value {
	cell := new(Value)
	*cell = Struct{s}
	return Iface{T: m.P.errorStringT, V: Ptr(cell)}
}

func extErrorf(m *Machine, caller *frame, args []Value) Value {
	return m.newError(m.sprintf(caller, args[0].(Str), variadic(args[1])))
}

func (m *Machine) sprint(caller *frame, args []Value, spaces bool) Str {
	var out Str
	for i, a := range args {
		if i > 0 && spaces {
			out = concatStr(out, mkStr(" "))
		}
		out = concatStr(out, m.fmtValue(caller, a, 'v'))
	}
	return out
}

func extSprint(m *Machine, caller *frame, args []Value) Value {
	return m.sprint(caller, variadic(args[0]), false)
}

func (m *Machine) output(s Str) {
	m.path.events = append(m.path.events, "OUT "+s.String())
	m.path.outputs = append(m.path.outputs, s)
}

func extPrintf(m *Machine, caller *frame, args []Value) Value {
	m.output(m.sprintf(caller, args[0].(Str), variadic(args[1])))
	return Tuple{m.ts.BV(0, 64), Iface{}}
}

func extPrint(m *Machine, caller *frame, args []Value) Value {
	m.output(m.sprint(caller, variadic(args[0]), false))
	return Tuple{m.ts.BV(0, 64), Iface{}}
}

func extPrintln(m *Machine, caller *frame, args []Value) Value {
	m.output(concatStr(m.sprint(caller, variadic(args[0]), true), mkStr("\n")))
	return Tuple{m.ts.BV(0, 64), Iface{}}
}

func extFprintf(m *Machine, caller *frame, args []Value) Value {
	m.output(m.sprintf(caller, args[1].(Str), variadic(args[2])))
	return Tuple{m.ts.BV(0, 64), Iface{}}
}

func extFprintln(m *Machine, caller *frame, args []Value) Value {
	m.output(concatStr(m.sprint(caller, variadic(args[1]), true), mkStr("\n")))
	return Tuple{m.ts.BV(0, 64), Iface{}}
}

func extLogFatal(m *Machine, caller *frame, args []Value) Value {
	if m.path.cli != nil && m.path.cli.ran {
		m.report("assert", "C18.no-execution-before-error-exit", "log.Fatal after the program was executed", m.ts.True)
	}
	m.path.events = append(m.path.events, "EXIT 1")
	m.endPath(OutExit, "log.Fatal")
	return nil
}

func extOsExit(m *Machine, caller *frame, args []Value) Value {
	m.path.events = append(m.path.events, "EXIT "+args[0].(*Term).String())
	m.endPath(OutExit, "os.Exit("+args[0].(*Term).String()+")")
	return nil
}

// ---- reflect ----

var rtypeMarker = types.NewNamed(types.NewTypeName(token.NoPos, nil, "rtype", nil), types.NewStruct(nil, nil), nil)

func extReflectTypeOf(m *Machine, caller *frame, args []Value) Value {
	switch v := args[0].(type) {
	case Iface:
		if v.T == nil {
			return Iface{}
		}
		return Iface{T: rtypeMarker, V: RType{v.T}}
	case *SymIface:
		c := m.concretizeSym(v)
		return Iface{T: rtypeMarker, V: RType{c.T}}
	}
	m.unsupported("reflect.TypeOf operand")
	return nil
}

// ---- strings / strconv ----

func extToLower(m *Machine, caller *frame, args []Value) Value {
	s := args[0].(Str)
	if cs, ok := s.Concrete(); ok {
		return mkStr(strings.ToLower(cs))
	}
	// documented stub: identity on inputs without ASCII upper-case letters (harness alphabets are lower-case)
	m.path.assumptions["strings.ToLower: symbolic argument assumed to contain no upper-case letter"] = true
	return s
}

func extRepeat(m *Machine, caller *frame, args []Value) Value {
	s, ok := args[0].(Str).Concrete()
	if !ok {
		return m.opaqueStr("repeat")
	}
	n := args[1].(*Term)
	if !n.IsConst() {
		return m.opaqueStr("repeat")
	}
	c := sext64(n.I, n.W)
	if c < 0 {
		m.throwRuntimeText("strings: negative Repeat count")
	}
	return mkStr(strings.Repeat(s, int(c)))
}

func extItoa(m *Machine, caller *frame, args []Value) Value {
	n := args[0].(*Term)
	if !n.IsConst() {
		return m.opaqueStr("itoa")
	}
	return mkStr(strconv.FormatInt(sext64(n.I, n.W), 10))
}

func extFormatUint(m *Machine, caller *frame, args []Value) Value {
	n := args[0].(*Term)
	b := args[1].(*Term)
	if !n.IsConst() || !b.IsConst() {
		return m.opaqueStr("formatuint")
	}
	return mkStr(strconv.FormatUint(n.I, int(b.I)))
}

// ---- atomics (access log for C13) ----

type memAccess struct {
	addr   Ptr
	write  bool
	atomic bool
	thread int
	where  string
}

func extAtomicAdd64(m *Machine, caller *frame, args []Value) Value {
	p := args[0].(Ptr)
	if p == nil {
		m.throwRuntime("invalid memory address or nil pointer dereference")
	}
	m.logAccess(p, true, true, caller)
	nv := m.ts.BinBV(OAdd, (*p).(*Term), args[1].(*Term))
	*p = nv
	return nv
}

func extAtomicLoad64(m *Machine, caller *frame, args []Value) Value {
	p := args[0].(Ptr)
	if p == nil {
		m.throwRuntime("invalid memory address or nil pointer dereference")
	}
	m.logAccess(p, false, true, caller)
	return *p
}

func (m *Machine) logAccess(p Ptr, write, atomic bool, fr *frame) {
	if atomic {
		m.vcAtomic(p)
	}
	if m.path.watch == nil || !m.path.watch[p] {
		return
	}
	where := ""
	if fr != nil {
		where = fr.fn.String()
	}
	m.path.accesses = append(m.path.accesses, memAccess{p, write, atomic, m.path.thread, where})
}

// ---- time ----

func extTimeNow(m *Machine, caller *frame, args []Value) Value {
	// time.Time{wall uint64, ext int64, loc *Location}
	return Struct{m.ts.BV(0, 64), m.ts.BV(0, 64), Ptr(nil)}
}

func extTimeSince(m *Machine, caller *frame, args []Value) Value {
	return m.ts.BV(0, 64)
}

// ---- readers: symbolic rune sequence ----

// runeSource is the model of strings.Reader / bufio.Reader over a sequence of rune terms.
type runeSource struct {
	runes    []*Term
	pos      int
	lastRead bool // previous operation was a successful ReadRune
	reads    int
}

func extStringsNewReader(m *Machine, caller *frame, args []Value) Value {
	s := args[0].(Str)
	rs := m.strRunes(s)
	src := &runeSource{runes: rs}
	cell := new(Value)
	*cell = Struct{src}
	return Ptr(cell)
}

func extBufioNewReader(m *Machine, caller *frame, args []Value) Value {
	// io.Reader wrapping our source: unwrap
	switch r := args[0].(type) {
	case Iface:
		if p, ok := r.V.(Ptr); ok && p != nil {
			if st, ok := (*p).(Struct); ok && len(st) == 1 {
				if src, ok := st[0].(*runeSource); ok {
					cell := new(Value)
					*cell = Struct{src}
					return Ptr(cell)
				}
			}
		}
	}
	if r, ok := args[0].(Iface); ok && r.T == nil {
		// bufio.NewReader(nil): a reader without a source yet (to be Reset later)
		cell := new(Value)
		*cell = Struct{&runeSource{}}
		return Ptr(cell)
	}
	m.unsupported("bufio.NewReader over a non-modelled reader")
	return nil
}

func srcOf(m *Machine, v Value) *runeSource {
	p := v.(Ptr)
	if p == nil {
		m.throwRuntime("invalid memory address or nil pointer dereference")
	}
	src, ok := (*p).(Struct)[0].(*runeSource)
	if !ok {
		m.unsupported("reader without modelled source")
	}
	return src
}

func (m *Machine) eofError() Value {
	if g := m.P.Pkgs["io"]; g != nil {
		if v, ok := g.Members["EOF"].(*ssa.Global); ok {
			if cell := m.globals[v]; cell != nil {
				if e, ok := (*cell).(Iface); ok && e.T != nil {
					return e
				}
			}
		}
	}
	if m.eofErr == nil {
		m.eofErr = m.newError(mkStr("EOF"))
	}
	return m.eofErr
}

func extReadRune(m *Machine, caller *frame, args []Value) Value {
	src := srcOf(m, args[0])
	src.reads++
	m.path.readRunes++
	if src.pos >= len(src.runes) {
		src.lastRead = false
		return Tuple{m.ts.BV(0, 32), m.ts.BV(0, 64), m.eofError()}
	}
	r := src.runes[src.pos]
	src.pos++
	src.lastRead = true
	return Tuple{r, m.ts.BV(1, 64), Iface{}}
}

func extUnreadRune(m *Machine, caller *frame, args []Value) Value {
	src := srcOf(m, args[0])
	if !src.lastRead || src.pos == 0 {
		return m.newError(mkStr("bufio: invalid use of UnreadRune"))
	}
	src.pos--
	src.lastRead = false
	return Iface{}
}

// ---- context: a Done channel that never fires; cancel is a no-op event ----

func extCtxBackground(m *Machine, caller *frame, args []Value) Value {
	return Iface{T: ctxMarker, V: &Chan{Cap: 0, ID: -1}}
}

var ctxMarker = types.NewNamed(types.NewTypeName(token.NoPos, nil, "modelCtx", nil), types.NewStruct(nil, nil), nil)

func extCtxWithCancel(m *Machine, caller *frame, args []Value) Value {
	sp := m.P.Pkgs["grits/zzvn"]
	if sp == nil || sp.Func("ModelWithCancel") == nil {
		m.unsupported("context.WithCancel (no model)")
	}
	return m.callSSAPlain(caller, sp.Func("ModelWithCancel"), args)
}

// HeartbeatReceiver(timeout, cancel): the timer contract. The real function cancels the run
// after `timeout` without a heartbeat; the model waits for exact quiescence (no goroutine can
// make a step) and then calls cancel. Time itself is not modelled.
func extHeartbeatReceiver(m *Machine, caller *frame, args []Value) Value {
	// the heartbeat channel of this runtime environment becomes a sink: the model of the
	// receiver consumes every heartbeat at once
	marked := false
	if p, ok := args[0].(Ptr); ok && p != nil {
		if st, ok := (*p).(Struct); ok {
			if sp := m.P.Pkgs["grits/process"]; sp != nil {
				if tn, ok := sp.Pkg.Scope().Lookup("RuntimeEnvironment").(*types.TypeName); ok {
					if stT, ok := tn.Type().Underlying().(*types.Struct); ok {
						for i := 0; i < stT.NumFields() && i < len(st); i++ {
							if _, isChan := stT.Field(i).Type().Underlying().(*types.Chan); isChan && strings.Contains(strings.ToLower(stT.Field(i).Name()), "heartbeat") {
								if ch, ok := st[i].(*Chan); ok && ch != nil {
									ch.Sink = true
									ch.Buf = nil
									marked = true
								}
							}
						}
					}
				}
			}
		}
	}
	if !marked {
		m.unsupported("HeartbeatReceiver: no heartbeat channel found in the runtime environment")
	}
	if m.schedOn() {
		m.schedQuiesce(caller)
	} else {
		m.drain()
	}
	m.call(caller, token.NoPos, args[2], nil)
	return nil
}

// (*bufio.Reader).Reset(r): read from r from now on (nil: nothing to read)
func extBufioReset(m *Machine, caller *frame, args []Value) Value {
	p, _ := args[0].(Ptr)
	if p == nil {
		m.throwRuntime("invalid memory address or nil pointer dereference")
	}
	st, ok := (*p).(Struct)
	if !ok || len(st) != 1 {
		m.unsupported("bufio.Reader.Reset on a non-modelled reader")
	}
	st[0] = &runeSource{}
	if r, ok := args[1].(Iface); ok && r.T != nil {
		if q, ok := r.V.(Ptr); ok && q != nil {
			if qs, ok := (*q).(Struct); ok && len(qs) == 1 {
				if src, ok := qs[0].(*runeSource); ok {
					st[0] = src
					return nil
				}
			}
		}
		m.unsupported("bufio.Reader.Reset over a non-modelled reader")
	}
	return nil
}

func extAtomicStore(m *Machine, caller *frame, args []Value) Value {
	p := args[0].(Ptr)
	if p == nil {
		m.throwRuntime("invalid memory address or nil pointer dereference")
	}
	m.logAccess(p, true, true, caller)
	*p = args[1]
	return nil
}

// sync.Once: field 0 of the struct records completion (modelled, not the real layout semantics)
func extOnceDo(m *Machine, caller *frame, args []Value) Value {
	p := args[0].(Ptr)
	if p == nil {
		m.throwRuntime("invalid memory address or nil pointer dereference")
	}
	st := (*p).(Struct)
	if done, ok := st[len(st)-1].(onceDone); ok && bool(done) {
		return nil
	}
	st[len(st)-1] = onceDone(true)
	m.call(caller, token.NoPos, args[1], nil)
	return nil
}

type onceDone bool

// ---- package strings: searching and testing (concrete strings run natively; a symbolic needle of
// known length against a concrete haystack becomes an ite chain over the positions) ----

// knownLen: the byte length of a rope whose atoms are constant chunks and single-byte rune terms.
func knownLen(s Str) (int, bool) {
	n := 0
	for _, p := range s.parts {
		switch {
		case p.t != nil:
			return 0, false
		case p.r != nil:
			n++
		default:
			n += len(p.s)
		}
	}
	return n, true
}

func (m *Machine) strIndexTerm(h string, needle Str, last bool) Value {
	ts := m.ts
	l, ok := knownLen(needle)
	if !ok {
		m.unsupported("strings.Index with a needle of unknown length")
	}
	res := ts.BV(^uint64(0), 64) // -1
	// build from the last position backwards so that the first match wins (reverse for LastIndex)
	if !last {
		for i := len(h) - l; i >= 0; i-- {
			res = ts.Ite(m.strEq(mkStr(h[i:i+l]), needle), ts.BV(uint64(i), 64), res)
		}
	} else {
		for i := 0; i+l <= len(h); i++ {
			res = ts.Ite(m.strEq(mkStr(h[i:i+l]), needle), ts.BV(uint64(i), 64), res)
		}
	}
	return res
}

func extStringsIndex(m *Machine, caller *frame, args []Value) Value {
	h, hok := args[0].(Str).Concrete()
	n, nok := args[1].(Str).Concrete()
	if hok && nok {
		return m.ts.BV(uint64(int64(strings.Index(h, n))), 64)
	}
	if hok {
		return m.strIndexTerm(h, args[1].(Str), false)
	}
	m.unsupported("strings.Index in a symbolic string")
	return nil
}

func extStringsLastIndex(m *Machine, caller *frame, args []Value) Value {
	h, hok := args[0].(Str).Concrete()
	n, nok := args[1].(Str).Concrete()
	if hok && nok {
		return m.ts.BV(uint64(int64(strings.LastIndex(h, n))), 64)
	}
	if hok {
		return m.strIndexTerm(h, args[1].(Str), true)
	}
	m.unsupported("strings.LastIndex in a symbolic string")
	return nil
}

func extStringsContains(m *Machine, caller *frame, args []Value) Value {
	i := extStringsIndex(m, caller, args).(*Term)
	return m.ts.Not(m.ts.Eq(i, m.ts.BV(^uint64(0), 64)))
}

func extStringsIndexByte(m *Machine, caller *frame, args []Value) Value {
	h, hok := args[0].(Str).Concrete()
	c := args[1].(*Term)
	if hok && c.IsConst() {
		return m.ts.BV(uint64(int64(strings.IndexByte(h, byte(c.I)))), 64)
	}
	if hok {
		ts := m.ts
		res := ts.BV(^uint64(0), 64)
		for i := len(h) - 1; i >= 0; i-- {
			res = ts.Ite(ts.Eq(c, ts.BV(uint64(h[i]), 8)), ts.BV(uint64(i), 64), res)
		}
		return res
	}
	m.unsupported("strings.IndexByte in a symbolic string")
	return nil
}

func extStringsHasPrefix(m *Machine, caller *frame, args []Value) Value {
	s, sok := args[0].(Str).Concrete()
	p, pok := args[1].(Str).Concrete()
	if sok && pok {
		return m.ts.Bool(strings.HasPrefix(s, p))
	}
	if sok {
		if l, ok := knownLen(args[1].(Str)); ok {
			if l > len(s) {
				return m.ts.False
			}
			return m.strEq(mkStr(s[:l]), args[1].(Str))
		}
	}
	m.unsupported("strings.HasPrefix on symbolic strings")
	return nil
}

func extStringsHasSuffix(m *Machine, caller *frame, args []Value) Value {
	s, sok := args[0].(Str).Concrete()
	p, pok := args[1].(Str).Concrete()
	if sok && pok {
		return m.ts.Bool(strings.HasSuffix(s, p))
	}
	if sok {
		if l, ok := knownLen(args[1].(Str)); ok {
			if l > len(s) {
				return m.ts.False
			}
			return m.strEq(mkStr(s[len(s)-l:]), args[1].(Str))
		}
	}
	m.unsupported("strings.HasSuffix on symbolic strings")
	return nil
}

func concreteStrFn(name string, f func(string) string) externalFn {
	return func(m *Machine, caller *frame, args []Value) Value {
		s, ok := args[0].(Str).Concrete()
		if !ok {
			m.unsupported("strings." + name + " of a symbolic string")
		}
		return mkStr(f(s))
	}
}

func extStringsEqualFold(m *Machine, caller *frame, args []Value) Value {
	a, aok := args[0].(Str).Concrete()
	b, bok := args[1].(Str).Concrete()
	if aok && bok {
		return m.ts.Bool(strings.EqualFold(a, b))
	}
	m.unsupported("strings.EqualFold on symbolic strings")
	return nil
}

// ---- virtual time (run-to-completion model only): a sleeping goroutine wakes, and a time.After
// channel delivers, when every goroutine is blocked and virtual time is advanced to the deadline.
// Computation itself takes no virtual time. Under schedule exploration time is not modelled
// (Sleep is a no-op, time.After is unsupported).

func extTimeSleep(m *Machine, caller *frame, args []Value) Value {
	d, ok := args[0].(*Term)
	if !ok || !d.IsConst() {
		return nil
	}
	ns := sext64(d.I, d.W)
	if ns <= 0 || m.schedOn() || m.noForkDepth > 0 {
		return nil
	}
	wake := m.path.now + ns
	m.path.deadlines = append(m.path.deadlines, wake)
	m.block(func() bool { return m.path.now >= wake }, "sleep")
	return nil
}

func extTimeAfter(m *Machine, caller *frame, args []Value) Value {
	d, ok := args[0].(*Term)
	if !ok || !d.IsConst() || m.schedOn() {
		m.unsupported("time.After (symbolic duration, or under schedule exploration)")
	}
	ns := sext64(d.I, d.W)
	if ns < 1 {
		ns = 1
	}
	m.chanSeq++
	ch := &Chan{Cap: 1, ID: m.chanSeq, readyAt: m.path.now + ns}
	m.path.deadlines = append(m.path.deadlines, ch.readyAt)
	return ch
}
