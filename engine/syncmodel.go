package gse

// Models of the sync package used by Grits or by plausible changes to it:
//   sync.Map        an association list per receiver (the engine's Map), with the writes
//                   counted as stores to package-level state when the receiver is a global
//   sync.Mutex / RWMutex   non-blocking in the run-to-completion model; in sched mode Lock is a
//                   visible operation that waits while the mutex is held; both directions
//                   carry happens-before edges for the race monitor
//   sync.WaitGroup  a counter; Wait with a positive counter is a visible operation that waits

import (
	"go/token"
	"go/types"

	"golang.org/x/tools/go/ssa"
)

type syncState struct {
	maps   map[Ptr]*Map
	locked map[Ptr]int // 0 free, -1 write-locked, n>0 readers
	muVC   map[Ptr]vclock
	wg     map[Ptr]int
	wgVC   map[Ptr]vclock
	pools  map[Ptr][]Value
}

func (m *Machine) syncSt() *syncState {
	if m.path.sync == nil {
		m.path.sync = &syncState{maps: map[Ptr]*Map{}, locked: map[Ptr]int{}, muVC: map[Ptr]vclock{}, wg: map[Ptr]int{}, wgVC: map[Ptr]vclock{}}
	}
	return m.path.sync
}

var anyType = types.NewInterfaceType(nil, nil)

func (m *Machine) syncMapOf(recv Value, write bool) *Map {
	p, _ := recv.(Ptr)
	if p == nil {
		m.throwRuntime("invalid memory address or nil pointer dereference")
	}
	if write && m.frozen != nil && m.frozen[p] {
		m.globalWrite("store into a package-level sync.Map")
	}
	st := m.syncSt()
	mp := st.maps[p]
	if mp == nil {
		mp = &Map{KeyT: anyType}
		st.maps[p] = mp
	}
	if m.path.raceOn {
		// sync.Map operations synchronise
		m.vcAtomic(p)
	}
	return mp
}

func extSyncMapLoad(m *Machine, caller *frame, args []Value) Value {
	mp := m.syncMapOf(args[0], false)
	if i := m.mapFind(mp, args[1]); i >= 0 {
		return Tuple{copyVal(mp.Entries[i].V), m.ts.True}
	}
	return Tuple{Iface{}, m.ts.False}
}

func extSyncMapStore(m *Machine, caller *frame, args []Value) Value {
	mp := m.syncMapOf(args[0], true)
	m.mapUpdate(mp, args[1], args[2])
	return nil
}

func extSyncMapLoadOrStore(m *Machine, caller *frame, args []Value) Value {
	mp := m.syncMapOf(args[0], true)
	if i := m.mapFind(mp, args[1]); i >= 0 {
		return Tuple{copyVal(mp.Entries[i].V), m.ts.True}
	}
	m.mapUpdate(mp, args[1], args[2])
	return Tuple{args[2], m.ts.False}
}

func extSyncMapDelete(m *Machine, caller *frame, args []Value) Value {
	mp := m.syncMapOf(args[0], true)
	m.mapDelete(mp, args[1])
	return nil
}

func extSyncMapLoadAndDelete(m *Machine, caller *frame, args []Value) Value {
	mp := m.syncMapOf(args[0], true)
	if i := m.mapFind(mp, args[1]); i >= 0 {
		v := copyVal(mp.Entries[i].V)
		m.mapDelete(mp, args[1])
		return Tuple{v, m.ts.True}
	}
	return Tuple{Iface{}, m.ts.False}
}

func extSyncMapRange(m *Machine, caller *frame, args []Value) Value {
	mp := m.syncMapOf(args[0], false)
	n := len(mp.Entries)
	for i := 0; i < n && i < len(mp.Entries); i++ {
		e := mp.Entries[i]
		if e.Dead {
			continue
		}
		r := m.call(caller, token.NoPos, args[1], []Value{e.K, copyVal(e.V)})
		if t, ok := r.(*Term); ok && !m.branch(t) {
			break
		}
	}
	return nil
}

// ---- mutexes ----

func (m *Machine) lockOp(caller *frame, p Ptr, write bool) {
	if p == nil {
		m.throwRuntime("invalid memory address or nil pointer dereference")
	}
	st := m.syncSt()
	free := func() bool {
		if write {
			return st.locked[p] == 0
		}
		return st.locked[p] >= 0
	}
	if m.schedOn() {
		// always a visible operation: two critical sections on one mutex are explored in both orders
		m.schedPoint(caller, &schedOp{kind: opMutex, mu: p, muWrite: write, what: "lock"})
		if !free() {
			m.unsupported("mutex model: lock granted while held")
		}
	} else if !free() {
		m.block(free, "lock of a held mutex")
	}
	if write {
		st.locked[p] = -1
	} else {
		st.locked[p]++
	}
	if m.path.raceOn {
		g := m.cur
		g.vc = joinVC(g.vc, st.muVC[p])
		g.tick()
	}
}

func (m *Machine) unlockOp(p Ptr, write bool) {
	if p == nil {
		m.throwRuntime("invalid memory address or nil pointer dereference")
	}
	st := m.syncSt()
	if write {
		if st.locked[p] != -1 {
			m.throwRuntimeText("sync: unlock of unlocked mutex")
		}
		st.locked[p] = 0
	} else {
		if st.locked[p] <= 0 {
			m.throwRuntimeText("sync: RUnlock of unlocked RWMutex")
		}
		st.locked[p]--
	}
	if m.path.raceOn {
		g := m.cur
		g.tick()
		st.muVC[p] = joinVC(st.muVC[p].copyVC(), g.vc)
		g.tick()
	}
}

func extMutexLock(m *Machine, caller *frame, args []Value) Value {
	m.lockOp(caller, args[0].(Ptr), true)
	return nil
}
func extMutexUnlock(m *Machine, caller *frame, args []Value) Value {
	m.unlockOp(args[0].(Ptr), true)
	return nil
}
func extMutexRLock(m *Machine, caller *frame, args []Value) Value {
	m.lockOp(caller, args[0].(Ptr), false)
	return nil
}
func extMutexRUnlock(m *Machine, caller *frame, args []Value) Value {
	m.unlockOp(args[0].(Ptr), false)
	return nil
}

// ---- wait groups ----

func extWGAdd(m *Machine, caller *frame, args []Value) Value {
	p := args[0].(Ptr)
	st := m.syncSt()
	n := int(m.concreteInt(args[1], "WaitGroup.Add delta"))
	st.wg[p] += n
	if st.wg[p] < 0 {
		m.throwRuntimeText("sync: negative WaitGroup counter")
	}
	if n < 0 && m.path.raceOn {
		g := m.cur
		g.tick()
		st.wgVC[p] = joinVC(st.wgVC[p].copyVC(), g.vc)
		g.tick()
	}
	return nil
}

func extWGDone(m *Machine, caller *frame, args []Value) Value {
	return extWGAdd(m, caller, []Value{args[0], m.ts.BV(^uint64(0), 64)})
}

func extWGWait(m *Machine, caller *frame, args []Value) Value {
	p := args[0].(Ptr)
	st := m.syncSt()
	if st.wg[p] > 0 {
		if m.schedOn() {
			m.schedPoint(caller, &schedOp{kind: opWait, mu: p, what: "WaitGroup.Wait"})
		} else {
			m.block(func() bool { return st.wg[p] <= 0 }, "WaitGroup.Wait")
		}
	}
	if m.path.raceOn {
		g := m.cur
		g.vc = joinVC(g.vc, st.wgVC[p])
		g.tick()
	}
	return nil
}

// ---- sync.Pool: a LIFO free list per pool; Get falls back to the New field ----

func (m *Machine) poolNew(p Ptr) Value {
	st, ok := (*p).(Struct)
	if !ok {
		return nil
	}
	// the New field is the only func-typed field of sync.Pool
	for _, f := range st {
		switch fn := f.(type) {
		case *Closure:
			if fn != nil {
				return fn
			}
		case *ssa.Function:
			if fn != nil {
				return fn
			}
		}
	}
	return nil
}

func extPoolGet(m *Machine, caller *frame, args []Value) Value {
	p, _ := args[0].(Ptr)
	if p == nil {
		m.throwRuntime("invalid memory address or nil pointer dereference")
	}
	st := m.syncSt()
	if st.pools == nil {
		st.pools = map[Ptr][]Value{}
	}
	if l := st.pools[p]; len(l) > 0 {
		v := l[len(l)-1]
		st.pools[p] = l[:len(l)-1]
		return v
	}
	if nf := m.poolNew(p); nf != nil {
		return m.call(caller, token.NoPos, nf, nil)
	}
	return Iface{}
}

func extPoolPut(m *Machine, caller *frame, args []Value) Value {
	p, _ := args[0].(Ptr)
	if p == nil {
		m.throwRuntime("invalid memory address or nil pointer dereference")
	}
	if m.frozen != nil && m.frozen[p] {
		m.globalWrite("Put into a package-level sync.Pool")
	}
	st := m.syncSt()
	if st.pools == nil {
		st.pools = map[Ptr][]Value{}
	}
	st.pools[p] = append(st.pools[p], args[1])
	return nil
}
