package gse

import (
	"encoding/json"
	"fmt"
	"os"
	"path/filepath"
	"sort"
	"strings"
	"time"

	"golang.org/x/tools/go/ssa"
)

// HarnessDef registers one harness function of a property.
type HarnessDef struct {
	Name     string         // "pkg.Func"
	Quick    map[string]int // vn.Param values in the quick tier
	Thorough map[string]int // overrides in the thorough tier
	Depth    int
	Loop     int
	MaxPaths int
	// assertion ids that need not be reached (only reachable at deeper bounds)
	Optional []string
	// outcomes that are legitimate for this harness and not violations
	ThoroughOnly bool
	Note         string
	// Sched: the harness explores goroutine schedules; a counterexample may need a particular
	// interleaving, so its native confirmation is attempted repeatedly (different GOMAXPROCS)
	Sched bool
}

type PropDef struct {
	ID            string
	Harnesses     []HarnessDef
	Exhaustive    bool
	Pkgs          []string
	AssertPrefix  string
	RaceReplay    bool // counterexamples are confirmed by a -race build of the native harness
	ReinitGlobals bool
	Bounds        string
	Assumptions   []string
	Outside       string
}

type Finding struct {
	Property string `json:"property"`
	Finding  string `json:"finding"`
	Status   string `json:"status"` // open | fixed
	Commit   string `json:"commit,omitempty"`
	Text     string `json:"text"`
	Region   string `json:"region,omitempty"`
}

func LoadFindings(path string) ([]Finding, error) {
	b, err := os.ReadFile(path)
	if err != nil {
		return nil, err
	}
	var fs []Finding
	if err := json.Unmarshal(b, &fs); err != nil {
		return nil, err
	}
	return fs, nil
}

// assertIDs statically collects the constant ids of vn.Assert calls reachable from fn through
// harness helper functions (functions whose name starts with zz/ZZ).
func assertIDs(fn *ssa.Function) []string {
	seen := map[*ssa.Function]bool{}
	ids := map[string]bool{}
	var visit func(f *ssa.Function)
	visit = func(f *ssa.Function) {
		if f == nil || seen[f] || f.Blocks == nil {
			return
		}
		seen[f] = true
		for _, b := range f.Blocks {
			for _, in := range b.Instrs {
				if mc, ok := in.(*ssa.MakeClosure); ok {
					visit(mc.Fn.(*ssa.Function))
				}
				c, ok := in.(ssa.CallInstruction)
				if !ok {
					continue
				}
				callee := c.Common().StaticCallee()
				if callee == nil {
					continue
				}
				if callee.String() == "grits/zzvn.Assert" {
					if k, ok := c.Common().Args[0].(*ssa.Const); ok {
						ids[constantString(k)] = true
					}
					continue
				}
				n := callee.Name()
				if callee.Parent() != nil || strings.HasPrefix(n, "zz") || strings.HasPrefix(n, "ZZ") {
					visit(callee)
				}
				for _, a := range c.Common().Args {
					if f2, ok := a.(*ssa.Function); ok {
						visit(f2)
					}
				}
			}
		}
		for _, af := range f.AnonFuncs {
			visit(af)
		}
	}
	visit(fn)
	var out []string
	for id := range ids {
		out = append(out, id)
	}
	sort.Strings(out)
	return out
}

type CheckConfig struct {
	Repo, Verif string
	Property    string
	Tier        string
	Seed        int64
	Workers     int
}

type evidence struct {
	PropertyID  string                 `json:"property_id"`
	Tier        string                 `json:"tier"`
	Seed        int64                  `json:"seed"`
	Level       string                 `json:"level"`
	Coverage    map[string]interface{} `json:"coverage"`
	Assumptions []string               `json:"assumptions"`
	WallS       float64                `json:"wall_s"`
	Violations  int                    `json:"violations"`
}

// RunCheck is the entry point of `gse check`. Returns the process exit code.
func RunCheck(cfg CheckConfig) int {
	t0 := time.Now()
	pd, ok := Properties[cfg.Property]
	if !ok {
		fmt.Printf("unknown or not-applicable property %s\n", cfg.Property)
		return 2
	}
	findings, err := LoadFindings(filepath.Join(cfg.Verif, "known_findings.json"))
	if err != nil {
		fmt.Println("cannot read known_findings.json:", err)
		return 2
	}
	P, err := Load(cfg.Repo, filepath.Join(cfg.Verif, "harness"), pd.Pkgs...)
	if err != nil {
		fmt.Println("ENGINE-ERROR: loading /repo failed:", err)
		return 2
	}
	loadS := time.Since(t0).Seconds()
	P.OpenFindings = map[string]bool{}
	P.WantKnownVectors = true
	P.AssertPrefix = pd.AssertPrefix
	P.ReinitGlobals = pd.ReinitGlobals
	findingText := map[string]Finding{}
	for _, f := range findings {
		if f.Status == "open" && f.Property == cfg.Property {
			P.OpenFindings[f.Finding] = true
		}
		findingText[f.Finding] = f
	}
	if cfg.Tier == "thorough" {
		P.SolverTimeoutMs = 60000
	} else {
		P.SolverTimeoutMs = 10000
	}
	nat, err := NewNative(P)
	if err != nil {
		fmt.Println("ENGINE-ERROR:", err)
		return 2
	}
	defer nat.Close()

	var problems []string
	var natRace *Native
	var allViol []Violation
	knownSeen := map[string]int{}
	totalPaths, totalDec, totalQ, totalInstr := 0, 0, 0, 0
	solverS := 0.0
	validated, mismatches := 0, 0
	var samplesOut []interface{}
	funcs := map[string]int{}
	stubs := map[string]int{}
	byOutcome := map[string]int{}
	var harnessRows []map[string]interface{}
	assertsReached := 0
	assertsTotal := 0
	confirmed := 0
	var violLines []string
	var knownLines []string
	replayDir := filepath.Join(cfg.Verif, "replays", cfg.Property)
	idReached := map[string]bool{} // vacuity: every assertion of the property is reached by some harness

	for _, hd := range pd.Harnesses {
		if hd.ThoroughOnly && cfg.Tier != "thorough" {
			continue
		}
		pkg := pkgOfHarness(hd.Name)
		fn := P.Harness("grits/"+pkg, hd.Name[len(pkg)+1:])
		if fn == nil {
			why := "harness not found: " + hd.Name
			for _, b := range P.BrokenHarness {
				if strings.HasPrefix(b, pkg+":") {
					why = "harness " + hd.Name + " does not compile against the current tree (" + b + ")"
				}
			}
			dup := false
			for _, p := range problems {
				if p == why {
					dup = true
				}
			}
			if !dup {
				problems = append(problems, why)
			}
			continue
		}
		params := map[string]int{}
		for k, v := range hd.Quick {
			params[k] = v
		}
		if cfg.Tier == "thorough" {
			for k, v := range hd.Thorough {
				params[k] = v
			}
		}
		P.Params = params
		nat.Params = encodeParams(params)
		// harnesses that do not explore schedules are executed run-to-completion by the executor
		// (a spawned goroutine runs when the current one blocks, finishes or drains); one OS
		// thread gives the native replay the same discipline, so that assertions about "what has
		// happened by now" do not depend on the load of the machine
		nat.BaseEnv = nil
		if !hd.Sched {
			nat.BaseEnv = []string{"GOMAXPROCS=1"}
		}
		depth, loop, maxp := hd.Depth, hd.Loop, hd.MaxPaths
		if depth == 0 {
			depth = 150
		}
		if loop == 0 {
			loop = 300
		}
		if maxp == 0 {
			maxp = 400000
		}
		spec := &HarnessSpec{Name: hd.Name, Fn: fn, Limits: Limits{Depth: depth, Loop: loop, Instrs: 30000000}, MaxPaths: maxp}
		if hd.Sched {
			spec.StopAfter = 2 // whole runs: every interleaving of a broken program tends to fail
		}
		sampleEvery := 1
		maxSamples := 40
		if cfg.Tier == "thorough" {
			maxSamples = 200
		}
		r := Explore(P, spec, cfg.Workers, sampleEvery, maxSamples)
		if r.Paths > 2000 {
			// keep a spread of samples, not only the first ones
		}
		totalPaths += r.Paths
		totalDec += r.Decisions
		totalQ += r.Queries
		totalInstr += r.Instrs
		solverS += r.SolverS
		for k, v := range r.Funcs {
			funcs[k] += v
		}
		for k, v := range r.Stubs {
			stubs[k] += v
		}
		for k, v := range r.ByOutcome {
			byOutcome[k] += v
		}
		for k, v := range r.KnownSeen {
			knownSeen[k] += v
		}
		for _, p := range r.Problems {
			problems = append(problems, hd.Name+": "+p)
		}
		if r.Truncated {
			problems = append(problems, fmt.Sprintf("%s: path budget %d exhausted (bound too large)", hd.Name, maxp))
		}
		// vacuity: every assertion of the harness must have been reached on a feasible path
		ids := assertIDs(fn)
		opt := map[string]bool{}
		for _, o := range hd.Optional {
			opt[o] = true
		}
		for _, id := range ids {
			if pd.AssertPrefix != "" && !strings.HasPrefix(id, pd.AssertPrefix) {
				continue
			}
			if _, seen := idReached[id]; !seen {
				idReached[id] = false
			}
			if r.Reached[id] > 0 || opt[id] {
				idReached[id] = true
			}
		}
		// native replays: samples (translator validation) and violation candidates
		var items []NativeItem
		for i, s := range r.Samples {
			items = append(items, NativeItem{ID: fmt.Sprintf("s%d", i), Harness: s.Harness, Vector: s.Vector})
		}
		var cands []Violation
		for _, v := range r.Viol {
			cands = append(cands, v)
		}
		for i, v := range cands {
			items = append(items, NativeItem{ID: fmt.Sprintf("v%d", i), Harness: v.Harness, Vector: v.Vector})
		}
		nres, err := nat.Run(pkg, items, 5000)
		if err != nil {
			problems = append(problems, hd.Name+": native replay failed: "+err.Error())
		}
		for i, s := range r.Samples {
			nr := nres[fmt.Sprintf("s%d", i)]
			if nr == nil {
				continue
			}
			okS, why := sampleAgrees(s, nr)
			for try := 0; !okS && hd.Sched && try < 3; try++ {
				// whole runs depend on the native heartbeat timer; under load a run can be cut
				// short, so a disagreement is re-examined before it is believed
				rr, rerr := nat.Run(pkg, []NativeItem{{ID: "retry", Harness: s.Harness, Vector: s.Vector}}, 8000)
				if rerr != nil || rr["retry"] == nil {
					break
				}
				nr = rr["retry"]
				okS, why = sampleAgrees(s, nr)
			}
			if okS {
				validated++
			} else {
				mismatches++
				problems = append(problems, fmt.Sprintf("%s: translator validation mismatch on vector %v: %s", hd.Name, s.Vector, why))
			}
			if len(samplesOut) < 6 && i < 2 {
				samplesOut = append(samplesOut, map[string]interface{}{"harness": s.Harness, "model_vector": s.Vector, "symbolic_outcome": s.Outcome, "native_outcome": nr.Outcome, "observations": s.Obs})
			}
		}
		hconf, hknown := 0, 0
		for i, v := range cands {
			nr := nres[fmt.Sprintf("v%d", i)]
			if nr == nil {
				problems = append(problems, fmt.Sprintf("%s: no native result for counterexample %v", hd.Name, v.Vector))
				continue
			}
			if pd.RaceReplay && v.Kind == "assert" {
				// confirm with the race detector: one process per vector
				if natRace == nil {
					natRace, _ = NewNative(P)
					natRace.Race = true
					natRace.Params = nat.Params
					defer natRace.Close()
				}
				rr, rerr := natRace.Run(pkg, []NativeItem{{ID: "r", Harness: v.Harness, Vector: v.Vector}}, 20000)
				// the Go race detector only reports a race whose two accesses it still remembers in
				// the run at hand: a few more native runs (different GOMAXPROCS) before giving up
				for try, procs := 0, []string{"4", "2", "16", "1", "8", "3"}; rerr == nil && (rr["r"] == nil || !rr["r"].Race) && try < len(procs); try++ {
					natRace.ExtraEnv = []string{"GOMAXPROCS=" + procs[try]}
					rr, rerr = natRace.Run(pkg, []NativeItem{{ID: "r", Harness: v.Harness, Vector: v.Vector}}, 20000)
					natRace.ExtraEnv = nil
				}
				if rerr != nil {
					problems = append(problems, hd.Name+": race replay failed: "+rerr.Error())
					continue
				}
				if r := rr["r"]; r != nil && r.Race {
					nr = r
					nr.Outcome, nr.Detail = "race", "reported by the Go race detector"
				} else {
					problems = append(problems, fmt.Sprintf("%s: counterexample for %s not confirmed by the race detector, vector=%v", hd.Name, v.Assert, v.Vector))
					continue
				}
			} else if !violationReproduces(v, nr) && hd.Sched && m_retryNative(nat, pkg, v, &nr) {
				// confirmed on a later attempt (schedule-dependent counterexample)
			} else if !violationReproduces(v, nr) {
				problems = append(problems, fmt.Sprintf("%s: counterexample for %s (%s) did not reproduce natively (native: %s %s) vector=%v", hd.Name, v.Assert, v.Kind, nr.Outcome, nr.Detail, v.Vector))
				continue
			}
			if v.Known != "" {
				hknown++
				line := fmt.Sprintf("KNOWN-FINDING: property=%s %s %s [harness %s, %s, vector %v; native: %s %s]", cfg.Property, v.Known, findingText[v.Known].Text, v.Harness, v.Assert, v.Vector, nr.Outcome, nr.Detail)
				dup := false
				for _, l := range knownLines {
					if strings.HasPrefix(l, fmt.Sprintf("KNOWN-FINDING: property=%s %s ", cfg.Property, v.Known)) {
						dup = true
					}
				}
				if !dup {
					knownLines = append(knownLines, line)
				}
				continue
			}
			hconf++
			confirmed++
			os.MkdirAll(replayDir, 0755)
			rp := filepath.Join(replayDir, fmt.Sprintf("%s-%s-%d.json", strings.ReplaceAll(v.Harness, ".", "_"), sanitize(v.Assert), confirmed))
			rec := map[string]interface{}{"property": cfg.Property, "harness": v.Harness, "assert": v.Assert, "kind": v.Kind, "msg": v.Msg, "vector": v.Vector, "params": params, "observations": v.Obs, "native_outcome": nr.Outcome + " " + nr.Detail}
			b, _ := json.MarshalIndent(rec, "", " ")
			os.WriteFile(rp, b, 0644)
			violLines = append(violLines, fmt.Sprintf("VIOLATION property=%s replay=%s", cfg.Property, rp))
			fmt.Printf("counterexample: harness=%s assertion=%s kind=%s vector=%v obs=%v native=%s %s\n", v.Harness, v.Assert, v.Kind, v.Vector, v.Obs, nr.Outcome, nr.Detail)
			allViol = append(allViol, v)
		}
		row := map[string]interface{}{"harness": hd.Name, "params": params, "paths": r.Paths, "by_outcome": r.ByOutcome, "decisions": r.Decisions, "max_decision_depth": r.MaxDepth, "queries": r.Queries, "solver_s": round3(r.SolverS), "wall_s": round3(r.WallS), "instructions": r.Instrs, "asserts": ids, "violations_confirmed": hconf, "known_findings_confirmed": hknown, "unwind_limits": map[string]int{"call_depth": depth, "loop": loop}}
		harnessRows = append(harnessRows, row)
		if len(samplesOut) < 12 && len(r.Samples) > 0 && len(samplesOut) == 0 {
			samplesOut = append(samplesOut, r.Samples[0])
		}
	}

	for id, ok := range idReached {
		assertsTotal++
		if ok {
			assertsReached++
		} else {
			problems = append(problems, fmt.Sprintf("assertion %s never reached on a feasible path by any harness of the property (vacuous)", id))
		}
	}
	// known findings listed open but not observed are reported (not an error)
	for fid := range P.OpenFindings {
		seen := false
		for _, l := range knownLines {
			if strings.Contains(l, " "+fid+" ") {
				seen = true
			}
		}
		if !seen {
			fmt.Printf("note: open known finding %s was not exhibited by this run (tier %s)\n", fid, cfg.Tier)
		}
	}
	for _, l := range knownLines {
		fmt.Println(l)
	}

	// evidence
	var fnList []string
	for f := range funcs {
		if strings.HasPrefix(f, "grits/") || strings.HasPrefix(f, "(*grits/") || strings.HasPrefix(f, "(grits/") {
			if !strings.Contains(f, "zzvn") && !strings.Contains(f, ".ZZ") && !strings.Contains(f, ".zz") {
				fnList = append(fnList, f)
			}
		}
	}
	sort.Strings(fnList)
	var stubList []string
	for s := range stubs {
		stubList = append(stubList, s)
	}
	sort.Strings(stubList)
	if len(samplesOut) == 0 {
		samplesOut = append(samplesOut, "no path sampled")
	}
	ev := evidence{PropertyID: cfg.Property, Tier: cfg.Tier, Seed: cfg.Seed, Level: "model_checking", WallS: round3(time.Since(t0).Seconds()), Violations: confirmed}
	ev.Coverage = map[string]interface{}{
		"states":                           totalPaths,
		"transitions":                      totalDec,
		"traces_validated_against_impl":    validated,
		"samples":                          samplesOut,
		"exhaustive":                       pd.Exhaustive && len(problems) == 0,
		"technique":                        "forking symbolic execution of go/ssa built from /repo's working tree; every branch feasibility and every assertion decided by z3 over all symbolic inputs on the path",
		"paths_by_outcome":                 byOutcome,
		"queries_discharged":               totalQ,
		"solver_s":                         round3(solverS),
		"instructions_interpreted":         totalInstr,
		"functions_encoded":                fnList,
		"stubs_hit":                        stubList,
		"harnesses":                        harnessRows,
		"bounds":                           pd.Bounds,
		"outside_claim":                    pd.Outside,
		"assertions_total":                 assertsTotal,
		"assertions_reached":               assertsReached,
		"translator_validation_mismatches": mismatches,
		"known_findings_seen":              knownSeen,
		"inconclusive":                     problems,
		"load_s":                           round3(loadS),
		"native_build_s":                   round3(nat.BuildS),
		"solver":                           "z3 (one live process per worker, push/pop per path)",
	}
	schedComplete, schedPruned, schedAny := 0, 0, false
	schedNames := map[string]bool{}
	for _, hd := range pd.Harnesses {
		if hd.Sched {
			schedNames[hd.Name] = true
		}
	}
	for _, row := range harnessRows {
		if name, _ := row["harness"].(string); schedNames[name] {
			schedAny = true
			if bo, ok := row["by_outcome"].(map[string]int); ok {
				schedComplete += bo["ok"]
				schedPruned += bo["pruned"]
			}
		}
	}
	if schedAny {
		ev.Coverage["schedule_exploration"] = map[string]interface{}{
			"complete_interleavings": schedComplete,
			"sleep_set_pruned_paths": schedPruned,
			"note":                   "whole-run harnesses: goroutine interleavings at channel operations are explored exhaustively as forked decisions of the executor (sleep-set partial-order reduction); these choices are case splits, not solver variables; program data in the menu runs are concrete",
		}
	}
	ev.Assumptions = append([]string{}, pd.Assumptions...)
	os.MkdirAll(filepath.Join(cfg.Verif, "evidence"), 0755)
	b, _ := json.MarshalIndent(ev, "", " ")
	os.WriteFile(filepath.Join(cfg.Verif, "evidence", cfg.Property+".json"), b, 0644)

	fmt.Printf("property=%s tier=%s paths=%d decisions=%d queries=%d solver=%.1fs validated=%d wall=%.1fs\n", cfg.Property, cfg.Tier, totalPaths, totalDec, totalQ, solverS, validated, time.Since(t0).Seconds())
	for _, l := range violLines {
		fmt.Println(l)
	}
	if confirmed > 0 {
		return 1
	}
	if len(problems) > 0 {
		for _, p := range problems {
			fmt.Println("INCONCLUSIVE:", p)
		}
		return 2
	}
	return 0
}

// m_retryNative re-runs a schedule-dependent counterexample natively (the Go scheduler picks the
// interleaving) until it reproduces or the attempts are used up.
func m_retryNative(nat *Native, pkg string, v Violation, nr **NativeResult) bool {
	procs := []string{"1", "2", "4", "16"}
	for i := 0; i < 24; i++ {
		nat.ExtraEnv = []string{"GOMAXPROCS=" + procs[i%len(procs)]}
		rr, err := nat.Run(pkg, []NativeItem{{ID: "r", Harness: v.Harness, Vector: v.Vector}}, 8000)
		nat.ExtraEnv = nil
		if err != nil {
			return false
		}
		if r := rr["r"]; r != nil && violationReproduces(v, r) {
			r.Detail += fmt.Sprintf(" (native attempt %d)", i+2)
			*nr = r
			return true
		}
	}
	return false
}

func round3(f float64) float64 { return float64(int64(f*1000+0.5)) / 1000 }

func sanitize(s string) string {
	var sb strings.Builder
	for _, r := range s {
		if (r >= 'a' && r <= 'z') || (r >= 'A' && r <= 'Z') || (r >= '0' && r <= '9') || r == '-' || r == '_' {
			sb.WriteRune(r)
		} else {
			sb.WriteByte('_')
		}
	}
	return sb.String()
}

func encodeParams(p map[string]int) string {
	var ks []string
	for k := range p {
		ks = append(ks, k)
	}
	sort.Strings(ks)
	var parts []string
	for _, k := range ks {
		parts = append(parts, fmt.Sprintf("%s=%d", k, p[k]))
	}
	return strings.Join(parts, ",")
}

// sampleAgrees compares the symbolic prediction for a model with the native run.
func sampleAgrees(s Sample, nr *NativeResult) (bool, string) {
	want := s.Outcome
	got := nr.Outcome
	if want == "ok" && got != "ok" {
		return false, fmt.Sprintf("symbolic outcome ok, native %s %s", got, nr.Detail)
	}
	if want == "panic" && got != "panic" && got != "crash" {
		return false, fmt.Sprintf("symbolic outcome panic, native %s %s", got, nr.Detail)
	}
	// observations: order-insensitive multiset comparison of resolved entries
	wantObs := map[string]int{}
	for _, o := range s.Obs {
		if strings.HasSuffix(o, "=?") {
			continue
		}
		wantObs[o]++
	}
	gotObs := map[string]int{}
	for _, o := range nr.Obs {
		gotObs[o]++
	}
	for o, c := range wantObs {
		if gotObs[o] < c {
			return false, fmt.Sprintf("observation %s predicted by the model but native run printed %v", o, nr.Obs)
		}
	}
	if want == "ok" {
		unresolved := 0
		for _, o := range s.Obs {
			if strings.HasSuffix(o, "=?") {
				unresolved++
			}
		}
		if len(nr.Obs) != len(s.Obs) {
			return false, fmt.Sprintf("native run made %d observations, symbolic path %d", len(nr.Obs), len(s.Obs))
		}
	}
	return true, ""
}

func violationReproduces(v Violation, nr *NativeResult) bool {
	switch v.Kind {
	case "assert":
		return nr.Outcome == "assertfail" && nr.Detail == v.Assert
	case "panic":
		return nr.Outcome == "panic" || (nr.Outcome == "crash" && nr.Detail != "deadlock")
	case "unwind":
		return nr.Outcome == "hang" || (nr.Outcome == "crash" && nr.Detail == "stack overflow")
	case "blocked":
		return nr.Outcome == "hang" || (nr.Outcome == "crash" && nr.Detail == "deadlock")
	case "exit":
		return nr.Outcome == "exit"
	case "globalwrite":
		return false
	}
	return false
}

// Replay re-runs a recorded counterexample natively.
func Replay(repo, verif, path string) int {
	b, err := os.ReadFile(path)
	if err != nil {
		fmt.Println(err)
		return 2
	}
	var rec struct {
		Property string         `json:"property"`
		Harness  string         `json:"harness"`
		Assert   string         `json:"assert"`
		Kind     string         `json:"kind"`
		Vector   []int64        `json:"vector"`
		Params   map[string]int `json:"params"`
	}
	if err := json.Unmarshal(b, &rec); err != nil {
		fmt.Println(err)
		return 2
	}
	ov, err := BuildOverlay(repo, filepath.Join(verif, "harness"))
	if err != nil {
		fmt.Println(err)
		return 2
	}
	P := &Program{RepoDir: repo, HarnessDir: filepath.Join(verif, "harness"), Overlay: ov, Pkgs: map[string]*ssa.Package{}}
	nat, err := NewNative(P)
	if err != nil {
		fmt.Println(err)
		return 2
	}
	defer nat.Close()
	nat.Params = encodeParams(rec.Params)
	res, err := nat.Run(pkgOfHarness(rec.Harness), []NativeItem{{ID: "r", Harness: rec.Harness, Vector: rec.Vector}}, 10000)
	if err != nil {
		fmt.Println(err)
		return 2
	}
	nr := res["r"]
	if nr == nil {
		fmt.Println("no result")
		return 2
	}
	fmt.Printf("native run of %s with vector %v: %s %s\n", rec.Harness, rec.Vector, nr.Outcome, nr.Detail)
	for _, o := range nr.Obs {
		fmt.Println("  observed", o)
	}
	if violationReproduces(Violation{Kind: rec.Kind, Assert: rec.Assert}, nr) {
		fmt.Printf("VIOLATION property=%s replay=%s\n", rec.Property, path)
		return 1
	}
	fmt.Println("counterexample does not reproduce on the current tree")
	return 0
}
