package gse

import (
	"fmt"
	"go/types"
	"strconv"
	"strings"
	"unicode/utf8"

	"golang.org/x/tools/go/ssa"
)

// Value is one of:
//
//	*Term (Bool / BV)   Str   float64   complex128
//	Ptr (*Value)  Struct  Array  Slice  *Map  *Chan
//	Iface  *SymIface  *Closure  *ssa.Function  *ssa.Builtin
//	Tuple  RType  *Iter
type Value interface{}

type Ptr = *Value
type Struct []Value
type Array []Value

// Slice shares its backing store the way Go slices do (host slice aliasing).
type Slice struct {
	A   []Value // len(A) = len, cap(A) = cap
	Nil bool
}

type Tuple []Value

type Iface struct {
	T types.Type // dynamic type; nil => nil interface
	V Value
}

// SymIface: an interface value whose dynamic type/value is chosen by a symbolic selector.
type SymIface struct {
	Sel  *Term // BV64
	Alts []Iface
}

type Closure struct {
	Fn  *ssa.Function
	Env []Value
}

type RType struct{ T types.Type }

type Map struct {
	KeyT    types.Type
	Entries []mapEntry
	N       int // live entries
	Frozen  bool
	idx     map[string]int // concrete keys -> entry index
	symKeys []int          // entries whose key is not concrete
}

// hashKey returns a canonical string for fully concrete keys.
func hashKey(v Value) (string, bool) {
	switch v := v.(type) {
	case *Term:
		if !v.IsConst() {
			return "", false
		}
		if v.Sort == SBool {
			if v.B {
				return "T", true
			}
			return "F", true
		}
		return "i" + strconv.FormatUint(v.I, 16), true
	case Str:
		s, ok := v.Concrete()
		if !ok {
			return "", false
		}
		return "s" + s, true
	case Ptr:
		return fmt.Sprintf("p%p", v), true
	case *Map:
		return fmt.Sprintf("m%p", v), true
	case *Chan:
		return fmt.Sprintf("c%p", v), true
	case float64:
		return "f" + strconv.FormatFloat(v, 'g', -1, 64), true
	case Struct:
		var sb strings.Builder
		sb.WriteString("{")
		for _, e := range v {
			k, ok := hashKey(e)
			if !ok {
				return "", false
			}
			sb.WriteString(strconv.Itoa(len(k)))
			sb.WriteString(":")
			sb.WriteString(k)
		}
		return sb.String(), true
	case Array:
		var sb strings.Builder
		sb.WriteString("[")
		for _, e := range v {
			k, ok := hashKey(e)
			if !ok {
				return "", false
			}
			sb.WriteString(strconv.Itoa(len(k)))
			sb.WriteString(":")
			sb.WriteString(k)
		}
		return sb.String(), true
	case Iface:
		if v.T == nil {
			return "nil", true
		}
		k, ok := hashKey(v.V)
		if !ok {
			return "", false
		}
		return "I" + v.T.String() + "|" + k, true
	}
	return "", false
}

type mapEntry struct {
	K, V Value
	Dead bool
}

type Chan struct {
	Buf    []Value
	Cap    int
	Closed bool
	ID     int
	// sched mode
	Sink     bool // accepts every send immediately and invisibly (heartbeat)
	DoneOnly bool // a context's Done channel: only close conflicts with other operations
	readyAt   int64 // timer channel (time.After): delivers once virtual time reaches readyAt
	fired     bool
	Unordered bool // many-senders-one-logger channel (the monitor): sends of different goroutines commute
	sends    int
	recvVCs  []vclock
	closeVC  vclock
}

// ---- strings as ropes ----

type spart struct {
	s string
	r *Term // BV32 rune
	t *Term // String-sorted term
}

type Str struct{ parts []spart }

func mkStr(s string) Str {
	if s == "" {
		return Str{}
	}
	return Str{[]spart{{s: s}}}
}

func (a Str) Concrete() (string, bool) {
	switch len(a.parts) {
	case 0:
		return "", true
	case 1:
		if a.parts[0].r == nil && a.parts[0].t == nil {
			return a.parts[0].s, true
		}
	}
	return "", false
}

func (a Str) hasRune() bool {
	for _, p := range a.parts {
		if p.r != nil {
			return true
		}
	}
	return false
}

func (a Str) hasTerm() bool {
	for _, p := range a.parts {
		if p.t != nil {
			return true
		}
	}
	return false
}

func concatStr(a, b Str) Str {
	if len(a.parts) == 0 {
		return b
	}
	if len(b.parts) == 0 {
		return a
	}
	out := make([]spart, 0, len(a.parts)+len(b.parts))
	out = append(out, a.parts...)
	for _, p := range b.parts {
		n := len(out)
		if p.r == nil && p.t == nil && n > 0 && out[n-1].r == nil && out[n-1].t == nil {
			out[n-1] = spart{s: out[n-1].s + p.s}
		} else {
			out = append(out, p)
		}
	}
	return Str{out}
}

func (a Str) String() string {
	var sb strings.Builder
	for _, p := range a.parts {
		switch {
		case p.r != nil:
			sb.WriteString("‹" + p.r.String() + "›")
		case p.t != nil:
			sb.WriteString("«" + p.t.String() + "»")
		default:
			sb.WriteString(p.s)
		}
	}
	return sb.String()
}

// toTerm converts a rope without rune atoms into a String-sorted term.
func (m *Machine) strTerm(a Str) *Term {
	var parts []*Term
	for _, p := range a.parts {
		switch {
		case p.r != nil:
			m.unsupported("string mixing symbolic runes with symbolic strings")
		case p.t != nil:
			parts = append(parts, p.t)
		default:
			parts = append(parts, m.ts.StrC(p.s))
		}
	}
	return m.ts.Concat(parts...)
}

func (m *Machine) strFromTerm(t *Term) Str {
	if t.IsConst() {
		return mkStr(t.S)
	}
	return Str{[]spart{{t: t}}}
}

// runes expands a rope (no String-term atoms) into rune terms.
func (m *Machine) strRunes(a Str) []*Term {
	var out []*Term
	for _, p := range a.parts {
		switch {
		case p.r != nil:
			out = append(out, p.r)
		case p.t != nil:
			m.unsupported("rune view of symbolic string")
		default:
			for _, r := range p.s {
				out = append(out, m.ts.BV(uint64(r), 32))
			}
		}
	}
	return out
}

func (m *Machine) strEq(a, b Str) *Term {
	sa, oka := a.Concrete()
	sb, okb := b.Concrete()
	if oka && okb {
		return m.ts.Bool(sa == sb)
	}
	if !a.hasTerm() && !b.hasTerm() {
		ra, rb := m.strRunes(a), m.strRunes(b)
		if len(ra) != len(rb) {
			return m.ts.False
		}
		r := m.ts.True
		for i := range ra {
			r = m.ts.And(r, m.ts.Eq(ra[i], rb[i]))
		}
		return r
	}
	if a.hasRune() || b.hasRune() {
		m.unsupported("string equality mixing symbolic runes with symbolic strings")
	}
	// cheap structural checks first
	if len(a.parts) == len(b.parts) {
		same := true
		for i := range a.parts {
			if a.parts[i] != b.parts[i] {
				same = false
				break
			}
		}
		if same {
			return m.ts.True
		}
	}
	return m.ts.Eq(m.strTerm(a), m.strTerm(b))
}

func (m *Machine) strLen(a Str) *Term {
	r := m.ts.BV(0, 64)
	for _, p := range a.parts {
		switch {
		case p.r != nil:
			c := p.r
			l := m.ts.Ite(m.ts.CmpBV(OULt, c, m.ts.BV(0x80, 32)), m.ts.BV(1, 64),
				m.ts.Ite(m.ts.CmpBV(OULt, c, m.ts.BV(0x800, 32)), m.ts.BV(2, 64),
					m.ts.Ite(m.ts.CmpBV(OULt, c, m.ts.BV(0x10000, 32)), m.ts.BV(3, 64), m.ts.BV(4, 64))))
			r = m.ts.BinBV(OAdd, r, l)
		case p.t != nil:
			r = m.ts.BinBV(OAdd, r, m.ts.StrLen(p.t))
		default:
			r = m.ts.BinBV(OAdd, r, m.ts.BV(uint64(len(p.s)), 64))
		}
	}
	return r
}

// ---- zero values ----

func (m *Machine) zero(t types.Type) Value {
	switch t := t.(type) {
	case *types.Basic:
		if t.Kind() == types.UntypedNil {
			panic("untyped nil has no zero value")
		}
		if t.Info()&types.IsUntyped != 0 {
			t = types.Default(t).(*types.Basic)
		}
		switch {
		case t.Info()&types.IsBoolean != 0:
			return m.ts.False
		case t.Info()&types.IsInteger != 0:
			return m.ts.BV(0, intWidth(t))
		case t.Info()&types.IsFloat != 0:
			return float64(0)
		case t.Info()&types.IsComplex != 0:
			return complex128(0)
		case t.Info()&types.IsString != 0:
			return Str{}
		case t.Kind() == types.UnsafePointer:
			return Ptr(nil)
		}
		panic(fmt.Sprint("zero for unexpected basic type: ", t))
	case *types.Pointer:
		return Ptr(nil)
	case *types.Array:
		a := make(Array, t.Len())
		for i := range a {
			a[i] = m.zero(t.Elem())
		}
		return a
	case *types.Named:
		return m.zero(t.Underlying())
	case *types.Alias:
		return m.zero(types.Unalias(t))
	case *types.Interface:
		return Iface{}
	case *types.Slice:
		return Slice{Nil: true}
	case *types.Struct:
		s := make(Struct, t.NumFields())
		for i := range s {
			s[i] = m.zero(t.Field(i).Type())
		}
		return s
	case *types.Tuple:
		if t.Len() == 1 {
			return m.zero(t.At(0).Type())
		}
		s := make(Tuple, t.Len())
		for i := range s {
			s[i] = m.zero(t.At(i).Type())
		}
		return s
	case *types.Chan:
		return (*Chan)(nil)
	case *types.Map:
		return (*Map)(nil)
	case *types.Signature:
		return (*ssa.Function)(nil)
	case *types.TypeParam:
		panic("zero of type parameter")
	}
	panic(fmt.Sprint("zero: unexpected ", t))
}

func intWidth(t *types.Basic) uint8 {
	switch t.Kind() {
	case types.Int8, types.Uint8:
		return 8
	case types.Int16, types.Uint16:
		return 16
	case types.Int32, types.Uint32:
		return 32
	default:
		return 64
	}
}

func isSigned(t types.Type) bool {
	b, ok := t.Underlying().(*types.Basic)
	return ok && b.Info()&types.IsInteger != 0 && b.Info()&types.IsUnsigned == 0
}

func isInteger(t types.Type) bool {
	b, ok := t.Underlying().(*types.Basic)
	return ok && b.Info()&types.IsInteger != 0
}

func isString(t types.Type) bool {
	b, ok := t.Underlying().(*types.Basic)
	return ok && b.Info()&types.IsString != 0
}

// copyVal makes the value-semantics copy Go performs on assignment of aggregates.
func copyVal(v Value) Value {
	switch v := v.(type) {
	case Struct:
		n := make(Struct, len(v))
		for i := range v {
			n[i] = copyVal(v[i])
		}
		return n
	case Array:
		n := make(Array, len(v))
		for i := range v {
			n[i] = copyVal(v[i])
		}
		return n
	case Tuple:
		panic("copyVal of tuple")
	}
	return v
}

// store overwrites *addr in place for aggregates so that interior pointers stay valid.
func (m *Machine) store(addr Ptr, v Value) {
	if addr == nil {
		m.throwRuntime("invalid memory address or nil pointer dereference")
	}
	if m.frozen != nil && m.frozen[addr] {
		m.globalWrite("store to package-level state")
	}
	if m.path.watch != nil && m.path.watch[addr] {
		m.path.accesses = append(m.path.accesses, memAccess{addr, true, false, m.path.thread, m.where()})
	}
	if m.path.raceOn {
		m.raceAccess(addr, true)
	}
	switch dst := (*addr).(type) {
	case Struct:
		src := v.(Struct)
		for i := range src {
			m.storeInto(&dst[i], src[i])
		}
		return
	case Array:
		src := v.(Array)
		for i := range src {
			m.storeInto(&dst[i], src[i])
		}
		return
	}
	*addr = v
}

func (m *Machine) storeInto(addr *Value, v Value) {
	switch dst := (*addr).(type) {
	case Struct:
		src := v.(Struct)
		for i := range src {
			m.storeInto(&dst[i], src[i])
		}
		return
	case Array:
		src := v.(Array)
		for i := range src {
			m.storeInto(&dst[i], src[i])
		}
		return
	}
	*addr = v
}

func (m *Machine) load(addr Ptr) Value {
	if addr == nil {
		m.throwRuntime("invalid memory address or nil pointer dereference")
	}
	if m.path.watch != nil && m.path.watch[addr] {
		m.path.accesses = append(m.path.accesses, memAccess{addr, false, false, m.path.thread, m.where()})
	}
	if m.path.raceOn {
		m.raceAccess(addr, false)
	}
	return copyVal(*addr)
}

// ---- equality ----

// equalVals returns the Bool term for Go's == on two values of (static) type t.
func (m *Machine) equalVals(x, y Value) *Term {
	switch x := x.(type) {
	case *Term:
		return m.ts.Eq(x, y.(*Term))
	case Str:
		return m.strEq(x, y.(Str))
	case float64:
		return m.ts.Bool(x == y.(float64))
	case Ptr:
		return m.ts.Bool(x == y.(Ptr))
	case *Map:
		return m.ts.Bool(x == y.(*Map))
	case *Chan:
		return m.ts.Bool(x == y.(*Chan))
	case Struct:
		ys := y.(Struct)
		r := m.ts.True
		for i := range x {
			r = m.ts.And(r, m.equalVals(x[i], ys[i]))
		}
		return r
	case Array:
		ys := y.(Array)
		r := m.ts.True
		for i := range x {
			r = m.ts.And(r, m.equalVals(x[i], ys[i]))
		}
		return r
	case Iface:
		switch y := y.(type) {
		case Iface:
			if x.T == nil || y.T == nil {
				return m.ts.Bool(x.T == nil && y.T == nil)
			}
			if !types.Identical(x.T, y.T) {
				return m.ts.False
			}
			return m.equalVals(x.V, y.V)
		case *SymIface:
			return m.equalSym(y, x)
		}
	case *SymIface:
		switch y := y.(type) {
		case Iface:
			return m.equalSym(x, y)
		case *SymIface:
			r := m.ts.False
			for i, a := range x.Alts {
				ci := m.ts.Eq(x.Sel, m.ts.BV(uint64(i), 64))
				r = m.ts.Or(r, m.ts.And(ci, m.equalSym(y, a)))
			}
			return r
		}
	case RType:
		return m.ts.Bool(types.Identical(x.T, y.(RType).T))
	case *ssa.Function:
		if x == nil {
			switch y := y.(type) {
			case *ssa.Function:
				return m.ts.Bool(y == nil)
			case *Closure:
				return m.ts.Bool(y == nil)
			}
		}
	case *Closure:
		if f, ok := y.(*ssa.Function); ok && f == nil {
			return m.ts.Bool(x == nil)
		}
	case Slice:
		// only comparison with nil is legal
		if ys, ok := y.(Slice); ok && (ys.Nil || x.Nil) {
			return m.ts.Bool(x.Nil && ys.Nil)
		}
	}
	m.unsupported(fmt.Sprintf("comparison of %T and %T", x, y))
	return nil
}

func (m *Machine) equalSym(s *SymIface, c Iface) *Term {
	r := m.ts.False
	for i, a := range s.Alts {
		ci := m.ts.Eq(s.Sel, m.ts.BV(uint64(i), 64))
		r = m.ts.Or(r, m.ts.And(ci, m.equalVals(a, c)))
	}
	return r
}

// ---- helpers ----

func (m *Machine) concreteInt(v Value, what string) int64 {
	t := v.(*Term)
	if !t.IsConst() {
		m.unsupported("symbolic " + what)
	}
	return sext64(t.I, t.W)
}

func decodeRuneStr(r rune) string {
	if !utf8.ValidRune(r) {
		return "�"
	}
	return string(r)
}

func (m *Machine) toString(v Value) string {
	switch v := v.(type) {
	case nil:
		return "<nil>"
	case *Term:
		return v.String()
	case Str:
		return v.String()
	case Iface:
		if v.T == nil {
			return "<nil>"
		}
		return fmt.Sprintf("(%s)%s", v.T, m.toString(v.V))
	case Ptr:
		if v == nil {
			return "nil"
		}
		return fmt.Sprintf("&%s", m.toString(*v))
	case Struct:
		var sb strings.Builder
		sb.WriteString("{")
		for i, e := range v {
			if i > 0 {
				sb.WriteString(" ")
			}
			if i > 8 {
				sb.WriteString("…")
				break
			}
			sb.WriteString(m.toString(e))
		}
		sb.WriteString("}")
		return sb.String()
	}
	return fmt.Sprintf("%T", v)
}

func (m *Machine) where() string {
	if m.cur != nil && m.cur.fr != nil {
		return m.cur.fr.fn.String()
	}
	return ""
}
