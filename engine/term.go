package gse

// Hash-consed SMT terms with constant folding. One TermStore per Machine (worker).

import (
	"fmt"
	"strconv"
	"strings"
)

type Sort uint8

const (
	SBool Sort = iota
	SBV
	SStr
)

type Op uint8

const (
	OConst Op = iota
	OVar
	ONot
	OAnd
	OOr
	OIte
	OEq
	// BV
	OAdd
	OSub
	OMul
	OUDiv
	OURem
	OSDiv
	OSRem
	OBAnd
	OBOr
	OBXor
	OShl
	OLShr
	OAShr
	OULt
	OULe
	OSLt
	OSLe
	ONeg
	OBNot
	OZext       // to width w
	OSext       // to width w
	OTrunc      // to width w (extract low bits)
	OConcat     // string concat (n-ary)
	OStrLen     // -> BV64 (bytes; ASCII only strings are modelled)
	OStrIsIdent // Bool: string is a non-empty lower-case identifier
)

var opName = map[Op]string{
	ONot: "not", OAnd: "and", OOr: "or", OIte: "ite", OEq: "=",
	OAdd: "bvadd", OSub: "bvsub", OMul: "bvmul", OUDiv: "bvudiv", OURem: "bvurem", OSDiv: "bvsdiv", OSRem: "bvsrem",
	OBAnd: "bvand", OBOr: "bvor", OBXor: "bvxor", OShl: "bvshl", OLShr: "bvlshr", OAShr: "bvashr",
	OULt: "bvult", OULe: "bvule", OSLt: "bvslt", OSLe: "bvsle", ONeg: "bvneg", OBNot: "bvnot", OConcat: "str.++",
}

type Term struct {
	Op   Op
	Sort Sort
	W    uint8 // bit width for SBV
	Args []*Term
	B    bool   // bool const
	I    uint64 // bv const (masked)
	S    string // string const, or var name
	ID   int
}

func (t *Term) IsConst() bool { return t.Op == OConst }

type TermStore struct {
	tab   map[string]*Term
	next  int
	True  *Term
	False *Term
}

func NewTermStore() *TermStore {
	ts := &TermStore{tab: map[string]*Term{}}
	ts.True = ts.intern(&Term{Op: OConst, Sort: SBool, B: true})
	ts.False = ts.intern(&Term{Op: OConst, Sort: SBool, B: false})
	return ts
}

func (ts *TermStore) key(t *Term) string {
	var sb strings.Builder
	sb.WriteByte(byte(t.Op) + 'A')
	sb.WriteByte(byte(t.Sort) + '0')
	sb.WriteString(strconv.Itoa(int(t.W)))
	switch t.Op {
	case OConst:
		switch t.Sort {
		case SBool:
			if t.B {
				sb.WriteString("t")
			} else {
				sb.WriteString("f")
			}
		case SBV:
			sb.WriteString(":")
			sb.WriteString(strconv.FormatUint(t.I, 16))
		case SStr:
			sb.WriteString(":")
			sb.WriteString(t.S)
		}
	case OVar:
		sb.WriteString(":")
		sb.WriteString(t.S)
	default:
		for _, a := range t.Args {
			sb.WriteByte(',')
			sb.WriteString(strconv.Itoa(a.ID))
		}
	}
	return sb.String()
}

func (ts *TermStore) intern(t *Term) *Term {
	k := ts.key(t)
	if e, ok := ts.tab[k]; ok {
		return e
	}
	ts.next++
	t.ID = ts.next
	ts.tab[k] = t
	return t
}

func mask(w uint8) uint64 {
	if w >= 64 {
		return ^uint64(0)
	}
	return (uint64(1) << w) - 1
}

func sext64(v uint64, w uint8) int64 {
	if w >= 64 {
		return int64(v)
	}
	sh := 64 - uint(w)
	return int64(v<<sh) >> sh
}

func (ts *TermStore) Bool(b bool) *Term {
	if b {
		return ts.True
	}
	return ts.False
}

func (ts *TermStore) BV(v uint64, w uint8) *Term {
	return ts.intern(&Term{Op: OConst, Sort: SBV, W: w, I: v & mask(w)})
}

func (ts *TermStore) StrC(s string) *Term {
	return ts.intern(&Term{Op: OConst, Sort: SStr, S: s})
}

func (ts *TermStore) Var(name string, sort Sort, w uint8) *Term {
	return ts.intern(&Term{Op: OVar, Sort: sort, W: w, S: name})
}

func (ts *TermStore) mk(op Op, sort Sort, w uint8, args ...*Term) *Term {
	return ts.intern(&Term{Op: op, Sort: sort, W: w, Args: args})
}

func (ts *TermStore) Not(a *Term) *Term {
	if a.IsConst() {
		return ts.Bool(!a.B)
	}
	if a.Op == ONot {
		return a.Args[0]
	}
	return ts.mk(ONot, SBool, 0, a)
}

func (ts *TermStore) And(a, b *Term) *Term {
	if a.IsConst() {
		if a.B {
			return b
		}
		return ts.False
	}
	if b.IsConst() {
		if b.B {
			return a
		}
		return ts.False
	}
	if a == b {
		return a
	}
	if ts.Not(a) == b {
		return ts.False
	}
	if a.ID > b.ID {
		a, b = b, a
	}
	return ts.mk(OAnd, SBool, 0, a, b)
}

func (ts *TermStore) Or(a, b *Term) *Term {
	if a.IsConst() {
		if a.B {
			return ts.True
		}
		return b
	}
	if b.IsConst() {
		if b.B {
			return ts.True
		}
		return a
	}
	if a == b {
		return a
	}
	if ts.Not(a) == b {
		return ts.True
	}
	if a.ID > b.ID {
		a, b = b, a
	}
	return ts.mk(OOr, SBool, 0, a, b)
}

func (ts *TermStore) AndN(xs ...*Term) *Term {
	r := ts.True
	for _, x := range xs {
		r = ts.And(r, x)
	}
	return r
}

func (ts *TermStore) OrN(xs ...*Term) *Term {
	r := ts.False
	for _, x := range xs {
		r = ts.Or(r, x)
	}
	return r
}

func (ts *TermStore) Implies(a, b *Term) *Term { return ts.Or(ts.Not(a), b) }

func (ts *TermStore) Ite(c, a, b *Term) *Term {
	if c.IsConst() {
		if c.B {
			return a
		}
		return b
	}
	if a == b {
		return a
	}
	if a.Sort == SBool {
		if a.IsConst() && b.IsConst() {
			if a.B { // c ? true : false
				return c
			}
			return ts.Not(c)
		}
		if a.IsConst() {
			if a.B {
				return ts.Or(c, b)
			}
			return ts.And(ts.Not(c), b)
		}
		if b.IsConst() {
			if b.B {
				return ts.Or(ts.Not(c), a)
			}
			return ts.And(c, a)
		}
	}
	return ts.mk(OIte, a.Sort, a.W, c, a, b)
}

func (ts *TermStore) Eq(a, b *Term) *Term {
	if a == b {
		return ts.True
	}
	if a.Sort != b.Sort || (a.Sort == SBV && a.W != b.W) {
		panic(fmt.Sprintf("Eq sort mismatch %v/%d %v/%d", a.Sort, a.W, b.Sort, b.W))
	}
	if a.IsConst() && b.IsConst() {
		// distinct interned constants
		return ts.False
	}
	if a.Sort == SBool {
		if a.IsConst() {
			if a.B {
				return b
			}
			return ts.Not(b)
		}
		if b.IsConst() {
			if b.B {
				return a
			}
			return ts.Not(a)
		}
	}
	// push equality with a constant through ite of constants
	if b.IsConst() && a.Op == OIte {
		return ts.eqIteConst(a, b)
	}
	if a.IsConst() && b.Op == OIte {
		return ts.eqIteConst(b, a)
	}
	if a.ID > b.ID {
		a, b = b, a
	}
	return ts.mk(OEq, SBool, 0, a, b)
}

// (ite c x y) = k  where branches are (nested ites of) constants: simplify.
func (ts *TermStore) eqIteConst(it, k *Term) *Term {
	if !iteOfConsts(it, 0) {
		x, y := it, k
		if x.ID > y.ID {
			x, y = y, x
		}
		return ts.mk(OEq, SBool, 0, x, y)
	}
	return ts.eqIteConstRec(it, k)
}

func iteOfConsts(t *Term, d int) bool {
	if t.IsConst() {
		return true
	}
	if t.Op != OIte || d > 12 {
		return false
	}
	return iteOfConsts(t.Args[1], d+1) && iteOfConsts(t.Args[2], d+1)
}

func (ts *TermStore) eqIteConstRec(it, k *Term) *Term {
	if it.IsConst() {
		return ts.Bool(it == k)
	}
	return ts.Ite(it.Args[0], ts.eqIteConstRec(it.Args[1], k), ts.eqIteConstRec(it.Args[2], k))
}

func (ts *TermStore) BinBV(op Op, a, b *Term) *Term {
	w := a.W
	if a.Sort != SBV || b.Sort != SBV || a.W != b.W {
		panic(fmt.Sprintf("BinBV sort mismatch op=%v %v/%d %v/%d", opName[op], a.Sort, a.W, b.Sort, b.W))
	}
	if a.IsConst() && b.IsConst() {
		x, y := a.I, b.I
		m := mask(w)
		switch op {
		case OAdd:
			return ts.BV(x+y, w)
		case OSub:
			return ts.BV(x-y, w)
		case OMul:
			return ts.BV(x*y, w)
		case OUDiv:
			if y == 0 {
				return ts.BV(m, w)
			}
			return ts.BV(x/y, w)
		case OURem:
			if y == 0 {
				return a
			}
			return ts.BV(x%y, w)
		case OSDiv:
			if y == 0 {
				break
			}
			sx, sy := sext64(x, w), sext64(y, w)
			if sy == -1 {
				return ts.BV(uint64(-sx), w)
			}
			return ts.BV(uint64(sx/sy), w)
		case OSRem:
			if y == 0 {
				break
			}
			sx, sy := sext64(x, w), sext64(y, w)
			if sy == -1 {
				return ts.BV(0, w)
			}
			return ts.BV(uint64(sx%sy), w)
		case OBAnd:
			return ts.BV(x&y, w)
		case OBOr:
			return ts.BV(x|y, w)
		case OBXor:
			return ts.BV(x^y, w)
		case OShl:
			if y >= uint64(w) {
				return ts.BV(0, w)
			}
			return ts.BV(x<<y, w)
		case OLShr:
			if y >= uint64(w) {
				return ts.BV(0, w)
			}
			return ts.BV(x>>y, w)
		case OAShr:
			sx := sext64(x, w)
			if y >= uint64(w) {
				y = uint64(w) - 1
			}
			return ts.BV(uint64(sx>>y), w)
		}
	}
	// light identities
	switch op {
	case OAdd:
		if a.IsConst() && a.I == 0 {
			return b
		}
		if b.IsConst() && b.I == 0 {
			return a
		}
	case OSub:
		if b.IsConst() && b.I == 0 {
			return a
		}
		if a == b {
			return ts.BV(0, w)
		}
	}
	return ts.mk(op, SBV, w, a, b)
}

func (ts *TermStore) CmpBV(op Op, a, b *Term) *Term {
	if a.Sort != SBV || b.Sort != SBV || a.W != b.W {
		panic(fmt.Sprintf("CmpBV sort mismatch %v/%d %v/%d", a.Sort, a.W, b.Sort, b.W))
	}
	if a.IsConst() && b.IsConst() {
		x, y := a.I, b.I
		sx, sy := sext64(x, a.W), sext64(y, a.W)
		switch op {
		case OULt:
			return ts.Bool(x < y)
		case OULe:
			return ts.Bool(x <= y)
		case OSLt:
			return ts.Bool(sx < sy)
		case OSLe:
			return ts.Bool(sx <= sy)
		}
	}
	if a == b {
		return ts.Bool(op == OULe || op == OSLe)
	}
	// comparisons of ite-of-consts against a const fold through
	if b.IsConst() && a.Op == OIte && iteOfConsts(a, 0) {
		return ts.Ite(a.Args[0], ts.CmpBV(op, a.Args[1], b), ts.CmpBV(op, a.Args[2], b))
	}
	if a.IsConst() && b.Op == OIte && iteOfConsts(b, 0) {
		return ts.Ite(b.Args[0], ts.CmpBV(op, a, b.Args[1]), ts.CmpBV(op, a, b.Args[2]))
	}
	return ts.mk(op, SBool, 0, a, b)
}

func (ts *TermStore) Neg(a *Term) *Term {
	if a.IsConst() {
		return ts.BV(-a.I, a.W)
	}
	return ts.mk(ONeg, SBV, a.W, a)
}

func (ts *TermStore) BNot(a *Term) *Term {
	if a.IsConst() {
		return ts.BV(^a.I, a.W)
	}
	return ts.mk(OBNot, SBV, a.W, a)
}

// Resize converts a BV to width w; signed selects sign extension.
func (ts *TermStore) Resize(a *Term, w uint8, signed bool) *Term {
	if a.W == w {
		return a
	}
	if a.IsConst() {
		if w < a.W {
			return ts.BV(a.I, w)
		}
		if signed {
			return ts.BV(uint64(sext64(a.I, a.W)), w)
		}
		return ts.BV(a.I, w)
	}
	if a.Op == OIte && iteOfConsts(a, 0) {
		return ts.Ite(a.Args[0], ts.Resize(a.Args[1], w, signed), ts.Resize(a.Args[2], w, signed))
	}
	if w < a.W {
		return ts.mk(OTrunc, SBV, w, a)
	}
	if signed {
		return ts.mk(OSext, SBV, w, a)
	}
	return ts.mk(OZext, SBV, w, a)
}

func (ts *TermStore) Concat(parts ...*Term) *Term {
	var out []*Term
	for _, p := range parts {
		if p.Op == OConcat {
			for _, q := range p.Args {
				out = appendStr(ts, out, q)
			}
		} else {
			out = appendStr(ts, out, p)
		}
	}
	if len(out) == 0 {
		return ts.StrC("")
	}
	if len(out) == 1 {
		return out[0]
	}
	return ts.mk(OConcat, SStr, 0, out...)
}

func appendStr(ts *TermStore, out []*Term, p *Term) []*Term {
	if p.IsConst() && p.S == "" {
		return out
	}
	if p.IsConst() && len(out) > 0 && out[len(out)-1].IsConst() {
		out[len(out)-1] = ts.StrC(out[len(out)-1].S + p.S)
		return out
	}
	return append(out, p)
}

func (ts *TermStore) StrIsIdent(a *Term) *Term {
	if a.IsConst() {
		ok := len(a.S) > 0
		for _, r := range a.S {
			if r < 'a' || r > 'z' {
				ok = false
			}
		}
		return ts.Bool(ok)
	}
	return ts.mk(OStrIsIdent, SBool, 0, a)
}

func (ts *TermStore) StrLen(a *Term) *Term {
	if a.IsConst() {
		return ts.BV(uint64(len(a.S)), 64)
	}
	if a.Op == OIte && iteOfConsts(a, 0) {
		return ts.Ite(a.Args[0], ts.StrLen(a.Args[1]), ts.StrLen(a.Args[2]))
	}
	if a.Op == OConcat {
		r := ts.BV(0, 64)
		for _, p := range a.Args {
			r = ts.BinBV(OAdd, r, ts.StrLen(p))
		}
		return r
	}
	return ts.mk(OStrLen, SBV, 64, a)
}

// ---------- SMT-LIB printing ----------

func sortName(s Sort, w uint8) string {
	switch s {
	case SBool:
		return "Bool"
	case SBV:
		return fmt.Sprintf("(_ BitVec %d)", w)
	default:
		return "String"
	}
}

func smtStringLit(s string) string {
	var sb strings.Builder
	sb.WriteByte('"')
	for _, r := range s {
		if r == '"' {
			sb.WriteString("\"\"")
		} else if r < 32 || r > 126 || r == '\\' {
			fmt.Fprintf(&sb, "\\u{%x}", r)
		} else {
			sb.WriteRune(r)
		}
	}
	sb.WriteByte('"')
	return sb.String()
}

func constLit(t *Term) string {
	switch t.Sort {
	case SBool:
		if t.B {
			return "true"
		}
		return "false"
	case SBV:
		if t.W%4 == 0 {
			return fmt.Sprintf("#x%0*x", int(t.W/4), t.I)
		}
		return fmt.Sprintf("(_ bv%d %d)", t.I, t.W)
	default:
		return smtStringLit(t.S)
	}
}

// Human readable rendering (for evidence samples / debugging); trees, bounded.
func (t *Term) String() string { return t.str(0) }

func (t *Term) str(d int) string {
	if d > 6 {
		return "…"
	}
	switch t.Op {
	case OConst:
		if t.Sort == SBV {
			return strconv.FormatInt(sext64(t.I, t.W), 10)
		}
		return constLit(t)
	case OVar:
		return t.S
	}
	var sb strings.Builder
	sb.WriteByte('(')
	n := opName[t.Op]
	if n == "" {
		n = fmt.Sprintf("op%d", t.Op)
	}
	sb.WriteString(n)
	for _, a := range t.Args {
		sb.WriteByte(' ')
		sb.WriteString(a.str(d + 1))
	}
	sb.WriteByte(')')
	return sb.String()
}
