#!/usr/bin/env python3
"""Regenerates MANIFEST.json from the table below (kept in one place so it always validates)."""
import json, sys

ENV = "GOFLAGS=-mod=mod GOPROXY=off GOSUMDB=off GOTOOLCHAIN=local"
SETUP = f"cd /verif/engine && {ENV} go build -o /verif/bin/gse ./cmd/gse"

claimed = json.load(open('/verif/claims.json'))
checks = []
for c in claimed['checks']:
    pid = c['id']
    checks.append({
        "property_id": pid,
        "quick_cmd": f"bin/gse check --property {pid} --tier quick",
        "thorough_cmd": f"bin/gse check --property {pid} --tier thorough",
        "evidence_file": f"/verif/evidence/{pid}.json",
        "replay_cmd_template": "bin/gse replay {path}",
        "engine": "gse",
        "level_claimed": {"category": "model_checking", "text": c['text'], "design_ref": c.get('design_ref', 'DESIGN.md §3')},
        "level_note": c['note'],
        "technique": c.get('technique', "bounded symbolic execution of go/ssa (own encoder) + z3; counterexamples replayed natively"),
    })
na = list(claimed['not_applicable'])
have = {c['id'] for c in claimed['checks']} | {n['property_id'] for n in na}
for l in open('/verif/properties.jsonl'):
    pid = json.loads(l)['id']
    if pid not in have:
        na.append({"property_id": pid, "reason": "check not built yet in this session (work in progress; see DESIGN.md for the intended decision)"})
m = {
    "version": 1,
    "setup_cmd": SETUP,
    "hooks": {
        "guard": "verif",
        "enable": "none needed: harnesses are injected with go/packages overlays (symbolic run) and go test -overlay (native replay); no file in /repo is changed",
        "baseline_off_cmd": "cd /repo && go test -vet=off -count=1 -timeout 25m ./...",
        "source_commits": [],
        "add_only": True,
    },
    "engines": [{
        "name": "gse",
        "path": "/verif/engine",
        "serves_properties": [c['id'] for c in claimed['checks']],
        "kind_free_text": "forking symbolic executor for go/ssa (built from /repo's working tree on every run) emitting SMT-LIB2 to live z3 processes; native replay of every model through go test -overlay",
    }],
    "checks": checks,
    "not_applicable": na,
    "notes": claimed.get('notes', ''),
}
json.dump(m, open('/verif/MANIFEST.json', 'w'), indent=1)
print("wrote MANIFEST.json with", len(checks), "checks")
