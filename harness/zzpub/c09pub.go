// Package zzpub holds harnesses that use only the public API of Grits (parser.ParseString,
// process.Typecheck), so they keep working when internal signatures are refactored.
package zzpub

import (
	"grits/parser"
	"grits/process"

	vn "grits/zzvn"
)

// ZZC09Program (C09): a program text assembled from independent pieces — type definitions
// (well-formed, duplicated, non-contractive, undefined reference), a function (well-typed,
// ill-typed, providing a non-contractive type, calling an unknown function) and a process — is
// parsed and typechecked through the public entry points: Typecheck returns (no crash, no hang,
// no leftover failure after draining the worker), with an error iff a defect was put in.
func ZZC09Program() {
	tyKind := vn.Pick(5)
	fnKind := vn.Pick(5)
	prKind := vn.Pick(3)
	src := ""
	defect := false
	switch tyKind {
	case 0:
		src += "type A = 1\n"
	case 1:
		src += "type A = 1\ntype A = 1 * 1\n" // defined twice
		defect = true
	case 2:
		src += "type A = A\n" // not contractive
		defect = true
	case 3:
		src += "type A = B\ntype B = C\ntype C = A\n" // not contractive through three names
		defect = true
	default:
		src += "type A = 1 * Z\n" // undefined name
		defect = true
	}
	switch fnKind {
	case 0:
		src += "let f() : 1 = close self\n"
	case 1:
		src += "let f() : A = close self\n" // ill-typed unless A = 1
	case 2:
		src += "let f(x : A) : A = fwd self x\n"
	case 3:
		src += "let f() : 1 = g()\n" // unknown callee
		defect = true
	default:
		src += "let f(x : A, x : A) : 1 = close self\n" // duplicate parameter
		defect = true
	}
	switch prKind {
	case 0:
		src += "prc[p] : 1 = close self\n"
	case 1:
		src += "prc[p] : 1 = q <- new f(); wait q; close self\n"
		if fnKind == 2 {
			defect = true // f needs an argument
		}
	default:
		src += "prc[p] : 1 = wait nowhere; close self\n"
		defect = true
	}
	procs, assumed, genv, perr := parser.ParseString(src)
	vn.Assert("C09.program-parses", perr == nil)
	if perr != nil {
		return
	}
	err := process.Typecheck(procs, assumed, genv)
	vn.Drain()
	if defect {
		vn.Assert("C09.defective-program-gets-an-error", err != nil)
	}
	vn.Observe("rejected", err != nil)
}

func init() { vn.Register("zzpub.ZZC09Program", ZZC09Program) }
