package zzpub

// Whole runs of tiny closed programs under every schedule (C01, C02, C03, C04, C13, C19).
//
// A program text from the menu below is parsed and typechecked through the public entry
// points and executed by the real runtime (CreateChannelForEachProcess,
// SubstituteNameInitialization, StartTransitions and every Transition method) on the
// executor's goroutine / channel model with schedule exploration switched on: every
// interleaving of the process goroutines at their channel operations is explored (sleep-set
// reduced). Quiescence is exact (no goroutine can make a step) instead of the 50 ms heartbeat.

import (
	"sort"
	"strings"
	"sync"
	"time"

	"grits/parser"
	"grits/process"

	vn "grits/zzvn"
)

// RunResult is what one execution of a program showed.
type RunResult struct {
	Prints     []string // printed labels in order
	LiveAny    int      // process goroutines alive at quiescence
	LiveSend   int      // ... blocked in a send
	LiveRecv   int      // ... blocked in a receive or select
	ParseErr   bool
	TypeErr    bool
	Races      int
	Terminated bool
}

// RunProgram executes src in the given mode and returns what was observed at quiescence.
func RunProgram(src string, mode process.Execution_Version, typecheck bool) RunResult {
	return RunProgramMonitor(src, mode, typecheck, false)
}

// RunProgramMonitor: as RunProgram, optionally with a monitor attached (as the tests and the
// web server do).
func RunProgramMonitor(src string, mode process.Execution_Version, typecheck bool, monitor bool) RunResult {
	var r RunResult
	procs, assumed, genv, perr := parser.ParseString(src)
	if perr != nil {
		r.ParseErr = true
		return r
	}
	if typecheck {
		if err := process.Typecheck(procs, assumed, genv); err != nil {
			r.TypeErr = true
			vn.Drain()
			return r
		}
		vn.Drain()
	}
	genv.LogLevels = []process.LogLevel{}
	re, _, cancel := process.NewRuntimeEnvironment()
	re.GlobalEnvironment = genv
	re.UseMonitor = false
	re.Color = false
	re.Delay = 0
	re.ExecutionVersion = mode
	re.Typechecked = typecheck
	channels := re.CreateChannelForEachProcess(procs)
	re.SubstituteNameInitialization(procs, channels)
	vn.SnapshotBaseline()
	vn.CaptureBegin()
	vn.RaceDetect()
	vn.SchedStart()
	if monitor {
		re.UseMonitor = true
		startedWg := new(sync.WaitGroup)
		startedWg.Add(1)
		re.InitializeGivenMonitor(startedWg, process.NewMonitor(re, nil), nil)
		startedWg.Wait()
	}
	go re.HeartbeatReceiver(300*time.Millisecond, func() {
		vn.SnapshotGoroutines()
		cancel()
	})
	re.StartTransitions(procs)
	select {
	case <-re.Ctx().Done():
		r.Terminated = true
	case <-re.ErrorChan():
	}
	if monitor {
		re.StopMonitor()
	}
	vn.SchedStop()
	for _, l := range vn.CaptureEnd() {
		if strings.HasPrefix(l, "> ") {
			r.Prints = append(r.Prints, l[2:])
		}
	}
	r.LiveAny = vn.Live("transitionLoop", "")
	r.LiveSend = vn.Live("transitionLoop", "send")
	r.LiveRecv = vn.Live("transitionLoop", "recv") + vn.Live("transitionLoop", "select")
	r.Races = vn.Races()
	return r
}

func joinStrings(xs []string) string {
	out := ""
	for i, x := range xs {
		if i > 0 {
			out += ","
		}
		out += x
	}
	return out
}

func sortedCopy(xs []string) []string {
	ys := append([]string(nil), xs...)
	sort.Strings(ys)
	return ys
}

func sameMultiset(a, b []string) bool {
	if len(a) != len(b) {
		return false
	}
	x, y := sortedCopy(a), sortedCopy(b)
	for i := range x {
		if x[i] != y[i] {
			return false
		}
	}
	return true
}

type menuProgram struct {
	name        string
	src         string
	prints      []string    // expected multiset of printed labels
	before      [][2]string // causal order: the first label is printed before the second
	contraction bool        // uses split or a multi-name declaration
	respelled   bool        // a variant of an earlier program in which binders re-use the spelling of a consumed name
}

var runMenu = []menuProgram{
	{name: "m01", contraction: false,
		prints: []string{"x", "y"},
		before: [][2]string{{"x", "y"}},
		src: `prc[a] : lin 1 = print x; close self
prc[b] : lin 1 = wait a; print y; close self`},
	{name: "m02", contraction: false,
		prints: []string{"pu", "pv", "p", "q"},
		before: [][2]string{{"pu", "p"}, {"p", "q"}, {"pv", "q"}},
		src: `type A = lin 1 * 1
let pr1() : lin 1 = print pu; close self
let pr2() : lin 1 = print pv; close self
prc[a] : A = u <- new pr1(); v <- new pr2(); send self<u, v>
prc[b] : lin 1 = <x, y> <- recv a; wait x; print p; wait y; print q; close self`},
	{name: "m03", contraction: false,
		prints: []string{"right", "done"},
		before: [][2]string{{"right", "done"}},
		src: `type B = lin &{l : 1, r : 1}
prc[a] : B = case self (l<z> => print left; close z | r<z> => print right; close z)
prc[b] : lin 1 = x : lin 1 <- new (a.r<self>); wait x; print done; close self`},
	{name: "m04", contraction: false,
		prints: []string{"sel", "left"},
		before: [][2]string{{"sel", "left"}},
		src: `type C = lin +{l : 1, r : 1}
prc[a] : C = t : lin 1 <- new (close self); print sel; self.l<t>
prc[b] : lin 1 = case a (l<z> => print left; wait z; close self | r<z> => print right; wait z; close self)`},
	{name: "m05", contraction: false,
		prints: []string{"got", "fin"},
		before: [][2]string{{"got", "fin"}},
		src: `type F = lin 1 -* 1
prc[a] : F = <x, y> <- recv self; wait x; print got; close y
prc[b] : lin 1 = u : lin 1 <- new (close self); r : lin 1 <- new (send a<u, self>); wait r; print fin; close self`},
	{name: "m06", contraction: false,
		prints: []string{"x", "y"},
		before: [][2]string{{"x", "y"}},
		src: `prc[a] : lin 1 = print x; close self
prc[f] : lin 1 = fwd self a
prc[b] : lin 1 = wait f; print y; close self`},
	{name: "m07", contraction: false,
		prints: []string{"got", "fin"},
		before: [][2]string{{"got", "fin"}},
		src: `type F = lin 1 -* 1
prc[a] : F = <x, y> <- recv self; wait x; print got; close y
prc[f] : F = fwd self a
prc[b] : lin 1 = u : lin 1 <- new (close self); r : lin 1 <- new (send f<u, self>); wait r; print fin; close self`},
	{name: "m08", contraction: true,
		prints: []string{"once", "p", "q"},
		before: [][2]string{{"once", "p"}, {"p", "q"}},
		src: `prc[x] : rep 1 = print once; close self
prc[b] : lin 1 = <u, v> <- split x; wait u; print p; wait v; print q; close self`},
	{name: "m09", contraction: false,
		prints: []string{"made", "dropped"},
		before: [][2]string{},
		src: `prc[x] : aff 1 = print made; close self
prc[b] : lin 1 = drop x; print dropped; close self`},
	{name: "m10", contraction: false,
		prints: []string{"dropped"},
		before: [][2]string{},
		src: `type F = aff 1 -* 1
prc[a] : F = <x, y> <- recv self; wait x; print never; close y
prc[b] : lin 1 = drop a; print dropped; close self`},
	{name: "m11", contraction: false,
		prints: []string{"s", "s"},
		before: [][2]string{},
		src: `type nat = lin +{zero : 1, succ : nat}
let double(x : nat) : nat =
    case x (
          zero<x'> => self.zero<x'>
        | succ<x'> => h <- new double(x');
                      d : nat <- new self.succ<h>;
                      self.succ<d>
    )
let count(x : nat) : lin 1 =
    case x ( zero<x'> => wait x'; close self
           | succ<x'> => print s; count(x') )
prc[d0] : nat =
    t : lin 1 <- new close self;
    z  : nat <- new self.zero<t>;
    self.succ<z>
prc[b] : lin 1 =
    d1 <- new double(d0);
    count(d1)`},
	{name: "m12", contraction: false,
		prints: []string{"up", "fin"},
		before: [][2]string{{"up", "fin"}},
		src: `type U = lin /\ rep 1
prc[a] : U = s <- shift self; print up; close s
prc[b] : lin 1 = l : lin 1 <- new cast a<self>; wait l; print fin; close self`},
	{name: "m13", contraction: false,
		prints: []string{"dn", "fin"},
		before: [][2]string{{"dn", "fin"}},
		src: `type D = rep \/ lin 1
prc[a] : D = t : rep 1 <- new (close self); print dn; cast self<t>
prc[b] : lin 1 = s <- shift a; wait s; print fin; close self`},
	{name: "m14", contraction: true,
		prints: []string{"twice", "twice", "fin"},
		before: [][2]string{},
		src: `prc[a, b] : rep 1 = print twice; close self
prc[c] : lin 1 = wait a; wait b; print fin; close self`},
	{name: "m15", contraction: true,
		prints: []string{"leaf", "leaf", "fin"},
		before: [][2]string{},
		src: `type A = rep 1 * 1
let mk() : rep 1 = print leaf; close self
prc[x] : A = u <- new mk(); v <- new mk(); send self<u, v>
prc[b] : lin 1 = <c, d> <- split x; <c1, c2> <- recv c; <d1, d2> <- recv d; wait c1; wait c2; wait d1; wait d2; print fin; close self`},
	{name: "m16", contraction: true,
		prints: []string{"served", "served", "fin"},
		before: [][2]string{},
		src: `type F = rep 1 -* 1
let mk() : rep 1 = close self
prc[x] : F = <p, q> <- recv self; wait p; print served; close q
prc[b] : lin 1 = <c, d> <- split x; u <- new mk(); v <- new mk(); r1 : rep 1 <- new (send c<u, self>); r2 : rep 1 <- new (send d<v, self>); wait r1; wait r2; print fin; close self`},
	{name: "m17", contraction: false,
		prints: []string{"leaf", "dropped"},
		before: [][2]string{},
		src: `type F = aff 1 -* 1
let mk() : aff 1 = print leaf; close self
let hold(z : aff 1) : F = <p, q> <- recv self; wait p; wait z; print never; close q
prc[b] : lin 1 = z <- new mk(); h <- new hold(z); drop h; print dropped; close self`},
	{name: "m18", contraction: false,
		prints: []string{"leaf", "leaf", "dropped"},
		before: [][2]string{},
		src: `type A = aff 1 * 1
let mk() : aff 1 = print leaf; close self
prc[x] : A = u <- new mk(); v <- new mk(); send self<u, v>
prc[b] : lin 1 = drop x; print dropped; close self`},
	{name: "m19", contraction: false,
		prints: []string{"got", "fin"},
		before: [][2]string{{"got", "fin"}},
		src: `type F = lin 1 -* 1
prc[a] : F = <x, y> <- recv self; wait x; print got; close y
prc[f] : F = fwd self a
prc[g] : F = fwd self f
prc[b] : lin 1 = u : lin 1 <- new (close self); r : lin 1 <- new (send g<u, self>); wait r; print fin; close self`},
	{name: "m20", contraction: false,
		prints: []string{"x", "y"},
		before: [][2]string{{"x", "y"}},
		src: `prc[a] : lin 1 = print x; close self
prc[f] : lin 1 = fwd self a
prc[g] : lin 1 = fwd self f
prc[b] : lin 1 = wait g; print y; close self`},
	{name: "m21", respelled: true, contraction: true,
		prints: []string{"once", "p", "q"},
		before: [][2]string{{"once", "p"}, {"p", "q"}},
		src: `prc[x] : rep 1 = print once; close self
prc[b] : lin 1 = <x, v> <- split x; wait x; print p; wait v; print q; close self`},
	{name: "m22", respelled: true, contraction: true,
		prints: []string{"once", "p", "q"},
		before: [][2]string{{"once", "p"}, {"p", "q"}},
		src: `prc[x] : rep 1 = print once; close self
prc[b] : lin 1 = <u, x> <- split x; wait u; print p; wait x; print q; close self`},
	{name: "m23", contraction: true,
		prints: []string{"done", "done", "one", "two"},
		before: [][2]string{{"one", "two"}},
		src: `type box = rep +{v : 1}
type srv = rep &{go : 1}
let mk() : box = u : rep 1 <- new close self; self.v<u>
prc[q] : srv =
    a : box <- new mk();
    b : box <- new mk();
    case a ( v<x> =>
    case b ( v<y> =>
    case self ( go<s> => wait x; wait y; print done; close self )))
prc[main] : lin 1 =
    <q1, q2> <- split q;
    r1 : rep 1 <- new q1.go<self>;
    r2 : rep 1 <- new q2.go<self>;
    wait r1; print one;
    wait r2; print two;
    close self`},
	{name: "m24", contraction: true,
		prints: []string{"fin"},
		before: [][2]string{},
		src: `type T = 1 -* 1
prc[w]      : T     = <u, v> <- recv self; wait u; print never; close v
prc[e]      : 1     = close self
prc[pair]   : T * 1 = send self<w, e>
prc[holder] : T     = <p1, p2> <- split pair;
                      <w1, r1> <- recv p1;
                      <w2, r2> <- recv p2;
                      wait r1;
                      wait r2;
                      <x, y> <- recv self;
                      drop w1;
                      drop w2;
                      wait x;
                      close y
prc[main]   : lin 1     = drop holder; print fin; close self`},
	{name: "m25", contraction: true,
		prints: []string{"inc", "inc", "s", "s"},
		before: [][2]string{},
		src: `type nat = lin +{zero : 1, succ : nat}
type mapType = lin /\ rep (nat -* nat)
let inc() : mapType = s <- shift self; <n, r> <- recv s; print inc; self.succ<n>
let zero() : nat = t : lin 1 <- new close self; self.zero<t>
let count(x : nat) : lin 1 =
    case x ( zero<x'> => wait x'; close self
           | succ<x'> => print s; count(x') )
prc[b] : lin 1 =
    f <- new inc();
    <f1, f2> <- split f;
    g1 : lin (nat -* nat) <- new cast f1<self>;
    g2 : lin (nat -* nat) <- new cast f2<self>;
    z <- new zero();
    n1 : nat <- new send g1<z, self>;
    n2 : nat <- new send g2<n1, self>;
    count(n2)`},
	{name: "m26", contraction: true,
		prints: []string{"twice", "twice", "fin"},
		before: [][2]string{},
		src: `prc[a, b] : rep 1 = t : rep 1 <- new close self; wait t; print twice; close self
prc[c] : lin 1 = wait a; wait b; print fin; close self`},
	{name: "r01", respelled: true, contraction: false,
		prints: []string{"pu", "pv", "p", "q"},
		before: [][2]string{{"pu", "p"}, {"p", "q"}, {"pv", "q"}},
		src: `type A = lin 1 * 1
let pr1() : lin 1 = print pu; close self
let pr2() : lin 1 = print pv; close self
prc[a] : A = u <- new pr1(); v <- new pr2(); send self<u, v>
prc[b] : lin 1 = <x, a> <- recv a; wait x; print p; wait a; print q; close self`},
	{name: "r02", respelled: true, contraction: false,
		prints: []string{"sel", "left"},
		before: [][2]string{{"sel", "left"}},
		src: `type C = lin +{l : 1, r : 1}
prc[a] : C = t : lin 1 <- new (close self); print sel; self.l<t>
prc[b] : lin 1 = case a (l<a> => print left; wait a; close self | r<a> => print right; wait a; close self)`},
	{name: "r03", respelled: true, contraction: false,
		prints: []string{"dn", "fin"},
		before: [][2]string{{"dn", "fin"}},
		src: `type D = rep \/ lin 1
prc[a] : D = t : rep 1 <- new (close self); print dn; cast self<t>
prc[b] : lin 1 = a <- shift a; wait a; print fin; close self`},
	{name: "r04", respelled: true, contraction: false,
		prints: []string{"s", "s"},
		before: [][2]string{},
		src: `type nat = lin +{zero : 1, succ : nat}
let zero() : nat = t : lin 1 <- new close self; self.zero<t>
let succ(n : nat) : nat = self.succ<n>
let count(x : nat) : lin 1 =
    case x ( zero<x> => wait x; close self
           | succ<x> => print s; count(x) )
prc[b] : lin 1 =
    n <- new zero();
    n <- new succ(n);
    n <- new succ(n);
    count(n)`},
	{name: "r05", respelled: true, contraction: false,
		prints: []string{"got", "fin"},
		before: [][2]string{{"got", "fin"}},
		src: `type F = lin 1 -* 1
prc[a] : F = <x, y> <- recv self; wait x; print got; close y
prc[b] : lin 1 = u : lin 1 <- new (close self); u : lin 1 <- new (send a<u, self>); wait u; print fin; close self`},
	{name: "m27", contraction: true,
		prints: []string{"once", "p", "q"},
		before: [][2]string{{"once", "p"}, {"p", "q"}},
		src: `prc[x] : rep 1 = print once; close self
prc[f] : rep 1 = fwd self x
prc[b] : lin 1 = <u, v> <- split f; wait u; print p; wait v; print q; close self`},
	{name: "m28", contraction: true,
		prints: []string{"served", "served", "fin"},
		before: [][2]string{},
		src: `type F = rep 1 -* 1
let mk() : rep 1 = close self
prc[a] : F = <p, q> <- recv self; wait p; print served; close q
prc[f] : F = fwd self a
prc[b] : lin 1 = <c, d> <- split f; u <- new mk(); v <- new mk(); r1 : rep 1 <- new (send c<u, self>); r2 : rep 1 <- new (send d<v, self>); wait r1; wait r2; print fin; close self`},
	{name: "m29", contraction: true,
		prints: []string{"once", "fin"},
		before: [][2]string{{"once", "fin"}},
		src: `prc[x] : rep 1 = print once; close self
prc[b] : lin 1 = <u, v> <- split x; <p, q> <- split u; wait p; wait q; wait v; print fin; close self`},
	{name: "m30", contraction: true,
		prints: []string{"once", "fin"},
		before: [][2]string{{"once", "fin"}},
		src: `prc[x] : rep 1 = print once; close self
prc[b] : lin 1 = <u, v> <- split x; drop u; wait v; print fin; close self`},
	{name: "m31", contraction: true,
		prints: []string{"served", "served", "fin"},
		before: [][2]string{},
		src: `type F = rep 1 -* 1
let mk() : rep 1 = close self
prc[a, b] : F = <x, y> <- recv self; wait x; print served; close y
prc[c] : lin 1 = u <- new mk(); v <- new mk(); r1 : rep 1 <- new (send a<u, self>); r2 : rep 1 <- new (send b<v, self>); wait r1; wait r2; print fin; close self`},
	{name: "m32", contraction: false,
		prints: []string{"sel", "right"},
		before: [][2]string{{"sel", "right"}},
		src: `type C = lin +{l : 1, r : 1}
prc[a] : C = t : lin 1 <- new (close self); print sel; self.r<t>
prc[f] : C = fwd self a
prc[g] : C = fwd self f
prc[b] : lin 1 = case g (l<z> => print left; wait z; close self | r<z> => print right; wait z; close self)`},
	{name: "m33", contraction: false,
		prints: []string{"left", "done"},
		before: [][2]string{{"left", "done"}},
		src: `type B = lin &{l : 1, r : 1}
prc[a] : B = case self (l<z> => print left; close z | r<z> => print right; close z)
prc[f] : B = fwd self a
prc[b] : lin 1 = x : lin 1 <- new (f.l<self>); wait x; print done; close self`},
	{name: "m34", contraction: false,
		prints: []string{"up", "fin"},
		before: [][2]string{{"up", "fin"}},
		src: `type U = lin /\ rep 1
prc[a] : U = s <- shift self; print up; close s
prc[f] : U = fwd self a
prc[b] : lin 1 = l : lin 1 <- new cast f<self>; wait l; print fin; close self`},
	{name: "m35", contraction: true,
		prints: []string{"once", "fin"},
		before: [][2]string{{"once", "fin"}},
		src: `prc[x] : rep 1 = print once; close self
prc[b] : lin 1 = <u, v> <- split x; f : rep 1 <- new fwd self u; wait f; wait v; print fin; close self`},
	{name: "m36", contraction: true,
		prints: []string{"once", "fin"},
		before: [][2]string{{"once", "fin"}},
		src: `prc[x] : rep 1 = print once; close self
prc[b] : lin 1 = <u, v> <- split x; drop u; <p, q> <- split v; wait p; wait q; print fin; close self`},
	{name: "m37", contraction: true,
		prints: []string{"made", "made", "fin"},
		before: [][2]string{},
		src: `prc[a, b] : rep 1 = print made; close self
prc[c] : lin 1 = <u, v> <- split a; wait u; wait v; wait b; print fin; close self`},
	{name: "m38", contraction: true,
		prints: []string{"served", "served", "served", "fin"},
		before: [][2]string{},
		src: `type F = rep 1 -* 1
let mk() : rep 1 = close self
prc[x] : F = <p, q> <- recv self; wait p; print served; close q
prc[b] : lin 1 = <c, d> <- split x; <e, g> <- split c;
   u <- new mk(); v <- new mk(); w <- new mk();
   r1 : rep 1 <- new (send d<u, self>); r2 : rep 1 <- new (send e<v, self>); r3 : rep 1 <- new (send g<w, self>);
   wait r1; wait r2; wait r3; print fin; close self`},
	{name: "m39", contraction: false,
		prints: []string{"made", "dropped"},
		before: [][2]string{},
		src: `prc[a] : aff 1 = print made; close self
prc[f] : aff 1 = fwd self a
prc[b] : lin 1 = drop f; print dropped; close self`},
	{name: "m40", contraction: true,
		prints: []string{"fin"},
		before: [][2]string{},
		src: `type F = rep 1 -* 1
prc[x] : F = <p, q> <- recv self; wait p; print never; close q
prc[b] : lin 1 = <c, d> <- split x; drop c; drop d; print fin; close self`},
	{name: "m41", contraction: false,
		prints: []string{"dropped"},
		before: [][2]string{},
		src: `type F = aff 1 -* 1
prc[a] : F = <p, q> <- recv self; wait p; print never; close q
prc[f] : F = fwd self a
prc[b] : lin 1 = drop f; print dropped; close self`},
	{name: "m42", contraction: true,
		prints: []string{"once", "fin"},
		before: [][2]string{{"once", "fin"}},
		src: `prc[x] : rep 1 = print once; close self
prc[b] : lin 1 = <u, v> <- split x; <p, q> <- split v; wait p; wait q; wait u; print fin; close self`},
	{name: "m43", contraction: true,
		prints: []string{"once", "fin"},
		before: [][2]string{{"once", "fin"}},
		src: `prc[x] : rep 1 = print once; close self
prc[b] : lin 1 = <u, v> <- split x; <p, q> <- split u; <r, s> <- split p; wait r; wait s; wait q; wait v; print fin; close self`},
	{name: "m44", contraction: true,
		prints: []string{"made", "fin"},
		before: [][2]string{{"made", "fin"}},
		src: `let mk() : rep 1 = print made; close self
prc[x] : rep 1 = y <- new mk(); fwd self y
prc[b] : lin 1 = <u, v> <- split x; wait u; wait v; print fin; close self`},
	{name: "m45", contraction: true,
		prints: []string{"once", "fin"},
		before: [][2]string{{"once", "fin"}},
		src: `prc[x] : rep 1 = print once; close self
prc[b] : rep 1 = <u, v> <- split x; drop u; fwd self v
prc[c] : lin 1 = wait b; print fin; close self`},
	{name: "m46", contraction: true,
		prints: []string{"once", "fin"},
		before: [][2]string{{"once", "fin"}},
		src: `prc[x] : rep 1 = print once; close self
prc[b] : rep 1 = <u, v> <- split x; drop u; fwd self v
prc[c] : lin 1 = <p, q> <- split b; wait p; wait q; print fin; close self`},
	{name: "m47", contraction: false,
		prints: []string{"served", "fin"},
		before: [][2]string{{"served", "fin"}},
		src: `type F = lin 1 -* 1
prc[srv] : F = <x, y> <- recv self; wait x; w : lin 1 <- new (close self); wait w; print served; close y
prc[a] : lin 1 = close self
prc[main] : lin 1 = z : lin 1 <- new (send srv<a, self>); wait z; print fin; close self`},
	{name: "r06", respelled: true, contraction: false,
		prints: []string{"served", "fin"},
		before: [][2]string{{"served", "fin"}},
		src: `type F = lin 1 -* 1
prc[srv] : F = <x, y> <- recv self; wait x; z : lin 1 <- new (close self); wait z; print served; close y
prc[a] : lin 1 = close self
prc[main] : lin 1 = z : lin 1 <- new (send srv<a, self>); wait z; print fin; close self`},
	{name: "m48", contraction: false,
		prints: []string{"dn", "fin"},
		before: [][2]string{{"dn", "fin"}},
		src: `prc[a] : lin 1 = x <- shift f; wait x; print fin; close self
prc[f] : rep \/ lin 1 = fwd self b
prc[b] : rep \/ lin 1 = print dn; cast self<c>
prc[c] : rep 1 = close self`},
}

func orderRespected(prints []string, before [][2]string) bool {
	idx := func(l string) int {
		for i, p := range prints {
			if p == l {
				return i
			}
		}
		return -1
	}
	for _, b := range before {
		i, j := idx(b[0]), idx(b[1])
		if i < 0 || j < 0 || i > j {
			return false
		}
	}
	return true
}

// runMenuProgram: one menu program, one execution mode, every schedule.
//
//	C01  the run raises no interpreter error and no Go panic (a panic ends the path as a
//	     violation by itself) and reaches quiescence
//	C02  polarised modes: nothing is alive at quiescence (asynchronous) / only processes blocked
//	     in a send are (synchronous)
//	C03  the printed multiset is the same on every schedule and in every mode (= the expected one)
//	C04  the printed multiset is the one the SAX semantics gives and the order respects causality
//	C13  the happens-before monitor saw no unordered conflicting accesses
func runMenuProgram(p menuProgram, mode process.Execution_Version, monitor bool) {
	r := RunProgramMonitor(p.src, mode, true, monitor)
	vn.Assert("RUN.menu-program-is-accepted", !r.ParseErr && !r.TypeErr)
	if r.ParseErr || r.TypeErr {
		return
	}
	if mode != process.NON_POLARIZED_SYNC || !p.contraction {
		// (with contraction the non-polarised mode is not deterministic, as the property says)
		vn.Observe("prints", joinStrings(sortedCopy(r.Prints)))
	}
	vn.Assert("C01.run-reaches-quiescence-without-error", r.Terminated)
	switch mode {
	case process.NORMAL_ASYNC:
		vn.Assert("C02.nothing-alive-at-quiescence-async", r.LiveAny == 0)
	case process.NORMAL_SYNC:
		vn.Assert("C02.only-senders-alive-at-quiescence-sync", r.LiveRecv == 0)
	}
	if mode != process.NON_POLARIZED_SYNC || !p.contraction {
		vn.Assert("C03.same-labels-on-every-schedule-and-mode", sameMultiset(r.Prints, p.prints))
		vn.Assert("C04.labels-are-those-of-the-semantics", sameMultiset(r.Prints, p.prints))
		vn.Assert("C04.print-order-respects-causality", orderRespected(r.Prints, p.before))
	}
	vn.Assert("C13.no-unordered-conflicting-accesses", r.Races == 0)
	if p.respelled && (mode != process.NON_POLARIZED_SYNC || !p.contraction) {
		vn.Assert("C14.respelled-program-behaves-like-the-original", r.Terminated && sameMultiset(r.Prints, p.prints))
	}
}

// ZZRunMenu: params FIRST..LAST select the slice of the menu, MODES the number of modes.
func ZZRunMenu() {
	first, last := vn.Param("FIRST", 0), vn.Param("LAST", len(runMenu)-1)
	if last > len(runMenu)-1 {
		last = len(runMenu) - 1
	}
	k := first + vn.Pick(last-first+1)
	if vn.Param("RESPELLED", 0) == 1 {
		vn.Assume(runMenu[k].respelled)
	}
	if vn.Param("DEEP", 0) == 0 {
		// programs whose exploration takes minutes are left to the thorough tier
		vn.Assume(runMenu[k].name != "m38")
	}
	heavy := map[string]bool{"m11": true, "m15": true, "m16": true, "m23": true, "m24": true, "m25": true, "m28": true, "m31": true, "m38": true, "m43": true, "m46": true}
	if vn.Param("LIGHT", 0) == 1 {
		// the programs whose exploration stays small with a monitor attached
		vn.Assume(!heavy[runMenu[k].name])
	}
	if vn.Param("HEAVY", 0) == 1 {
		vn.Assume(heavy[runMenu[k].name])
	}
	mode := process.Execution_Version(vn.Pick(vn.Param("MODES", 3)))
	runMenuProgram(runMenu[k], mode, vn.Param("MONITOR", 0) == 1)
}

func init() { vn.Register("zzpub.ZZRunMenu", ZZRunMenu) }

// Ill-typed programs, one broken premise each. The typechecker must reject them; each one
// misbehaves when run (protocol error, or a process stuck forever), so a hole in the checker that
// lets one through shows up as a violated run (C01) and as a wrong verdict (C07).
var illTypedMenu = []struct{ name, what, src string }{
	{"x1", "a channel of pair type is waited on", `prc[a] : lin 1 * 1 = u : lin 1 <- new close self; v : lin 1 <- new close self; send self<u, v>
prc[b] : lin 1 = wait a; close self`},
	{"x2", "a label that the choice type does not offer is selected", `type C = lin +{l : 1}
prc[a] : C = t : lin 1 <- new close self; self.r<t>
prc[b] : lin 1 = case a (l<z> => wait z; close self)`},
	{"x3", "the payload of a pair (itself a pair) is used as a unit", `type P = lin (1 * 1) * 1
let unit() : lin 1 = close self
let pair() : lin 1 * 1 = a <- new unit(); b <- new unit(); send self<a, b>
prc[a] : P = u <- new pair(); v <- new unit(); send self<u, v>
prc[b] : lin 1 = <x, y> <- recv a; wait x; wait y; close self`},
	{"x5", "a left-nested and a right-nested product are passed off as the same named type", `type L = (1 * 1) * 1
let unit() : 1 = close self
let pair() : 1 * 1 = a <- new unit(); b <- new unit(); send self<a, b>
let left() : (1 * 1) * 1 = a <- new pair(); b <- new unit(); send self<a, b>
let right() : 1 * (1 * 1) = a <- new unit(); b <- new pair(); send self<a, b>
let both() : ((1 * 1) * 1) * (1 * (1 * 1)) = a <- new left(); b <- new right(); send self<a, b>
let useL(c : L) : 1 = <x, y> <- recv c; <x1, x2> <- recv x; wait x1; wait x2; wait y; close self
prc[p] : L * L = both()
prc[main] : 1 = <u, v> <- recv p; k1 <- new useL(u); k2 <- new useL(v); wait k1; wait k2; close self`},
	{"x6", "a linear channel is used twice", `prc[a] : lin 1 = close self
prc[b] : lin 1 = wait a; wait a; close self`},
	{"x7", "a label is sent to a process that expects a pair", `type F = lin 1 -* 1
prc[a] : F = <x, y> <- recv self; wait x; close y
prc[b] : lin 1 = u : lin 1 <- new close self; r : lin 1 <- new (a.l<self>); wait r; drop u; close self`},
	{"y2", "C05: a linear channel is dropped", `prc[a] : lin 1 = close self
prc[b] : lin 1 = drop a; close self`},
	{"y3", "C05: a linear channel is split", `prc[a] : lin 1 = close self
prc[b] : lin 1 = <u, v> <- split a; wait u; wait v; close self`},
	{"y4", "C05: an affine channel is split", `prc[a] : aff 1 = close self
prc[b] : lin 1 = <u, v> <- split a; wait u; wait v; close self`},
	{"y5", "C05: a multicast channel is dropped", `prc[a] : mul 1 = close self
prc[b] : lin 1 = drop a; close self`},
	{"y8", "C05: a linear parameter is left unused", `let f(x : lin 1, y : lin 1) : lin 1 = wait x; close self
prc[a] : lin 1 = close self
prc[c] : lin 1 = close self
prc[b] : lin 1 = z <- new f(a, c); wait z; close self`},
	{"y6", "C06: a replicable provider depends on a linear channel", `let f(x : lin 1) : rep 1 = wait x; close self
prc[a] : lin 1 = close self
prc[b] : lin 1 = y <- new f(a); wait y; close self`},
	{"y7", "C06: an up-shift from affine to linear", `type U = aff /\ lin 1
prc[a] : U = s <- shift self; close s
prc[b] : lin 1 = l : aff 1 <- new cast a<self>; wait l; close self`},
	{"z1", "types differ in the left component of a product (through a forward)", `let unit() : lin 1 = close self
prc[c] : lin 1 * 1 = u <- new unit(); v <- new unit(); send self<u, v>
prc[b] : lin (1 * 1) * 1 = fwd self +c
prc[d] : lin 1 = <x, y> <- recv b; <x1, x2> <- recv x; wait x1; wait x2; wait y; close self`},
	{"z2", "types differ in the right component of a product", `let unit() : lin 1 = close self
prc[c] : lin 1 * 1 = u <- new unit(); v <- new unit(); send self<u, v>
prc[b] : lin 1 * (1 * 1) = fwd self +c
prc[d] : lin 1 = <x, y> <- recv b; wait x; <y1, y2> <- recv y; wait y1; wait y2; close self`},
	{"z3", "types differ in the argument of a function type", `let unit() : lin 1 = close self
let pair() : lin 1 * 1 = u <- new unit(); v <- new unit(); send self<u, v>
prc[c] : lin 1 -* 1 = <x, y> <- recv self; wait x; close y
prc[b] : lin (1 * 1) -* 1 = fwd self -c
prc[d] : lin 1 = p <- new pair(); r : lin 1 <- new (send b<p, self>); wait r; close self`},
	{"z4", "types differ in the result of a function type", `let unit() : lin 1 = close self
prc[c] : lin 1 -* 1 = <x, y> <- recv self; wait x; close y
prc[b] : lin 1 -* (1 * 1) = fwd self -c
prc[d] : lin 1 = u <- new unit(); r : lin 1 * 1 <- new (send b<u, self>); <r1, r2> <- recv r; wait r1; wait r2; close self`},
	{"z5", "types differ in a branch of an internal choice", `let unit() : lin 1 = close self
prc[c] : lin +{l : 1} = u <- new unit(); self.l<u>
prc[b] : lin +{l : 1 * 1} = fwd self +c
prc[d] : lin 1 = case b (l<z> => <z1, z2> <- recv z; wait z1; wait z2; close self)`},
	{"z6", "types differ in a branch of an external choice", `prc[c] : lin &{l : 1} = case self (l<z> => close z)
prc[b] : lin &{l : 1 * 1} = fwd self -c
prc[d] : lin 1 = r : lin 1 * 1 <- new (b.l<self>); <r1, r2> <- recv r; wait r1; wait r2; close self`},
	{"z7", "types differ under a down-shift", `prc[c] : lin \/ lin 1 = t : lin 1 <- new close self; cast self<t>
prc[b] : lin \/ lin (1 * 1) = fwd self +c
prc[d] : lin 1 = s <- shift b; <x, y> <- recv s; wait x; wait y; close self`},
	{"z8", "types differ under an up-shift", `prc[c] : lin /\ lin 1 = s <- shift self; close s
prc[b] : lin /\ lin (1 * 1) = fwd self -c
prc[d] : lin 1 = l : lin 1 * 1 <- new cast b<self>; <x, y> <- recv l; wait x; wait y; close self`},
	{"y9", "C06: an up-shift whose continuation is a shift of a different mode", `type T = lin /\ lin (rep /\ rep 1)
prc[a] : T = x <- shift self; y <- shift x; close y`},
	{"y10", "C06: a down-shift whose continuation is a shift of a different mode", `type T = rep \/ aff (lin \/ lin 1)
let f(x : T) : aff 1 = y <- shift x; z <- shift y; wait z; close self`},
	{"y11", "C05: a case branch on the provider re-binds a parameter that is still in scope", `type T = lin &{l : 1 * 1}
let f(y : lin 1, v : lin 1) : T = case self ( l<y> => send y<y, v> )
prc[a] : lin 1 = close self
prc[b] : lin 1 = close self
prc[c] : T = f(a, b)
prc[d] : lin 1 = r : lin 1 * 1 <- new (c.l<self>); <p, q> <- recv r; wait p; wait q; print fin; close self`},
	{"y12", "C05: a cut re-binds a name that is still unused (the old channel would be lost and its provider left stuck)", `type F = lin 1 -* 1
prc[w] : F = <u, v> <- recv self; wait u; close v
prc[b] : lin 1 = x : F <- new (fwd self w); x : lin 1 <- new (close self); wait x; close self`},
}

// ZZRunIllTyped: every program of illTypedMenu is rejected; if one is accepted it is run (in the
// default mode, under every schedule) and must then still behave.
func ZZRunIllTyped() {
	p := illTypedMenu[vn.Pick(len(illTypedMenu))]
	r := RunProgram(p.src, process.NORMAL_ASYNC, true)
	vn.Assert("RUN.ill-typed-menu-program-parses", !r.ParseErr)
	if r.ParseErr {
		return
	}
	vn.Assert("C07.ill-typed-program-is-rejected", r.TypeErr)
	vn.Assert("C01.accepted-program-runs-safely", r.TypeErr || (r.Terminated && r.LiveAny == 0))
	vn.Assert("C02.accepted-program-leaves-nothing-stuck", r.TypeErr || (r.Terminated && r.LiveAny == 0))
	vn.Observe("rejected", r.TypeErr)
}

func init() { vn.Register("zzpub.ZZRunIllTyped", ZZRunIllTyped) }

// Well-typed programs that are only typechecked (they need not terminate): recursion through every
// kind of type constructor, in particular through shifts.
var verdictOnlyMenu = []struct{ name, what, src string }{
	{"v1", "a type recursive directly through an up-shift", `type A = lin /\ lin A
let f() : A = x <- shift self; f()
prc[a] : A = f()`},
	{"v2", "two types recursive through an up-shift and a down-shift", `type idle = lin /\ aff busy
type busy = aff \/ lin idle
let srv() : idle = b <- shift self; t <- new srv(); cast self<t>
let use(s : busy) : lin 1 = i <- shift s; drop i; close self
prc[server] : idle = srv()`},
	{"v3", "an alias of a type recursive through a shift", `type B = A
type A = lin /\ lin A
let f() : B = x <- shift self; f()
let g(y : A) : B = fwd self y
prc[a] : A = f()`},
	{"v4", "a type recursive through a down-shift, producer and consumer", `type S = lin \/ lin S
let p() : S = t <- new p(); cast self<t>
let c(s : S) : lin 1 = x <- shift s; c(x)
prc[a] : S = p()`},
	{"v5", "a list type recursive through a choice and a product", `type L = lin +{nil : 1, cons : 1 * L}
let nil() : L = t : lin 1 <- new close self; self.nil<t>
let cons(l : L) : L = h : lin 1 <- new close self; p : lin 1 * L <- new (send self<h, l>); self.cons<p>
let len(l : L) : lin 1 = case l ( nil<u> => wait u; close self | cons<p> => <h, t> <- recv p; wait h; print one; len(t) )
prc[a] : lin 1 = e <- new nil(); l <- new cons(e); len(l)`},
	{"v6", "a type that recurs in both operands of a product", `type tree = +{leaf : 1, node : tree * tree}
prc[a] : 1 = close self`},
	{"v7", "a type that is a product of itself", `type A = A * A
prc[a] : 1 = close self`},
	{"v8", "a type that recurs in both operands of a function type under a choice", `type t = &{apply : t -* t, get : 1}
prc[a] : 1 = close self`},
}

// ZZMenuVerdicts: the typechecker's verdict on every program of both menus (no execution): the
// well-typed ones are accepted (in particular the respelled variants: re-using the spelling of
// a consumed name changes nothing), the ill-typed ones rejected, and the worker always answers.
func ZZMenuVerdicts() {
	n := len(runMenu) + len(illTypedMenu) + len(verdictOnlyMenu)
	k := vn.Pick(n)
	src, wellTyped, respelled := "", true, false
	if k < len(runMenu) {
		src, respelled = runMenu[k].src, runMenu[k].respelled
	} else if k < len(runMenu)+len(illTypedMenu) {
		src, wellTyped = illTypedMenu[k-len(runMenu)].src, false
	} else {
		src = verdictOnlyMenu[k-len(runMenu)-len(illTypedMenu)].src
	}
	procs, assumed, genv, perr := parser.ParseString(src)
	vn.Assert("C11.menu-program-parses", perr == nil)
	if perr != nil {
		return
	}
	err := process.Typecheck(procs, assumed, genv)
	vn.Drain()
	if wellTyped {
		vn.Assert("C07.well-typed-program-is-accepted", err == nil)
		if respelled {
			vn.Assert("C14.respelling-does-not-change-the-verdict", err == nil)
		}
	} else {
		vn.Assert("C07.ill-typed-program-is-rejected", err != nil)
		what := illTypedMenu[k-len(runMenu)].what
		if strings.HasPrefix(what, "C05") {
			vn.Assert("C05.substructural-violation-is-rejected", err != nil)
		}
		if strings.HasPrefix(what, "C06") {
			vn.Assert("C06.mode-violation-is-rejected", err != nil)
		}
	}
	vn.Assert("C09.typechecker-answers-on-real-programs", true)
	vn.Observe("accepted", err == nil)
}

func init() { vn.Register("zzpub.ZZMenuVerdicts", ZZMenuVerdicts) }

// ZZRunTwice (C19): a history of two programs in one host process. The first program is
// accepted-and-run, rejected, or unparseable; whatever it leaves behind (parked process
// goroutines, a blocked checker goroutine, channels, counters) must not change the verdict, the
// printed labels or the quiescent state of the second one.
func ZZRunTwice() {
	first := []string{
		runMenu[6].src,  // negative forward, leaves nothing
		runMenu[8].src,  // drop
		runMenu[13].src, // multi-name declaration (duplication)
		illTypedMenu[0].src,
		illTypedMenu[1].src,
		"prc[a : = \n",
		"",
	}[vn.Pick(7)]
	sec := []int{0, 2, 4, 7, 9}[vn.Pick(5)]
	mode1 := process.Execution_Version(vn.Pick(2))
	mode2 := process.Execution_Version(vn.Pick(2))
	RunProgram(first, mode1, true)
	p := runMenu[sec]
	r := RunProgram(p.src, mode2, true)
	ok := !r.ParseErr && !r.TypeErr && r.Terminated && sameMultiset(r.Prints, p.prints)
	if mode2 == process.NORMAL_ASYNC {
		ok = ok && r.LiveAny == 0
	} else {
		ok = ok && r.LiveRecv == 0
	}
	vn.Assert("C19.second-program-behaves-as-if-alone", ok)
	vn.Observe("prints", joinStrings(sortedCopy(r.Prints)))
}

func init() { vn.Register("zzpub.ZZRunTwice", ZZRunTwice) }

// ZZRunStructural: enumerated structural programs. A client applies a sequence of L structural
// actions (split, drop, forward through a cut, use) to a replicable channel and the names that
// result, then uses up what is left. The provider is a positive unit (`print once; close self`,
// FAMILY 0), a negative server (`<p, q> <- recv self; wait p; print served; close q`, FAMILY 1) or
// a positive pair whose components are provided by two spawned children (FAMILY 2).
// Every such program is typechecked and run in the three modes under every schedule:
// no error, quiescence, nothing stuck; in the polarised modes the labels are exactly
// {once, fin} / {served x uses, fin}.
func ZZRunStructural() {
	L := vn.Param("L", 2)
	family := vn.Param("FAMILY", 0)
	live := []string{"x"}
	body := ""
	uses := 0
	itoa := func(i int) string { return string(rune('0' + i)) }
	use := func(n string, i int) string {
		if family == 0 {
			return "wait " + n + "; "
		}
		if family == 2 {
			return "<p" + itoa(i) + ", q" + itoa(i) + "> <- recv " + n + "; wait p" + itoa(i) + "; wait q" + itoa(i) + "; "
		}
		uses++
		return "u" + itoa(i) + " <- new mk(); r" + itoa(i) + " : rep 1 <- new (send " + n + "<u" + itoa(i) + ", self>); wait r" + itoa(i) + "; "
	}
	ty := "rep 1"
	if family == 1 {
		ty = "F"
	}
	if family == 2 {
		ty = "A"
	}
	for i := 0; i < L && len(live) > 0; i++ {
		act := vn.Pick(4)
		j := vn.Pick(len(live))
		n := live[j]
		rest := append(append([]string{}, live[:j]...), live[j+1:]...)
		switch act {
		case 0:
			a, b := "a"+itoa(i), "b"+itoa(i)
			body += "<" + a + ", " + b + "> <- split " + n + "; "
			live = append(rest, a, b)
		case 1:
			body += "drop " + n + "; "
			live = rest
		case 2:
			body += use(n, i)
			live = rest
		default:
			f := "f" + itoa(i)
			body += f + " : " + ty + " <- new fwd self " + n + "; "
			live = append(rest, f)
		}
	}
	for i, n := range live {
		body += use(n, 5+i)
	}
	src := ""
	if family == 0 {
		src = "prc[x] : rep 1 = print once; close self\n"
	} else if family == 2 {
		src = "type A = rep 1 * 1\nlet mk() : rep 1 = print leaf; close self\nprc[x] : A = u <- new mk(); v <- new mk(); send self<u, v>\n"
	} else {
		src = "type F = rep 1 -* 1\nlet mk() : rep 1 = close self\nprc[x] : F = <p, q> <- recv self; wait p; print served; close q\n"
	}
	src += "prc[b] : lin 1 = " + body + "print fin; close self\n"
	mode := process.Execution_Version(vn.Pick(3))
	r := RunProgram(src, mode, true)
	vn.Observe("program", body)
	vn.Assert("RUN.structural-program-is-accepted", !r.ParseErr && !r.TypeErr)
	if r.ParseErr || r.TypeErr {
		return
	}
	want := []string{"fin"}
	if family == 0 {
		want = append(want, "once")
	}
	if family == 2 {
		want = append(want, "leaf", "leaf")
	}
	for i := 0; i < uses; i++ {
		want = append(want, "served")
	}
	fins := 0
	for _, p := range r.Prints {
		if p == "fin" {
			fins++
		}
	}
	vn.Assert("C01.structural-run-reaches-quiescence-without-error", r.Terminated && fins == 1)
	if mode == process.NORMAL_ASYNC {
		vn.Assert("C02.structural-nothing-alive-at-quiescence-async", r.LiveAny == 0)
	} else if mode == process.NORMAL_SYNC {
		vn.Assert("C02.structural-only-senders-alive-at-quiescence-sync", r.LiveRecv == 0)
	}
	if mode != process.NON_POLARIZED_SYNC {
		vn.Assert("C03.structural-same-labels-on-every-schedule", sameMultiset(r.Prints, want))
		vn.Assert("C04.structural-labels-are-those-of-the-semantics", sameMultiset(r.Prints, want))
	}
	vn.Assert("C13.structural-no-unordered-conflicting-accesses", r.Races == 0)
}

func init() { vn.Register("zzpub.ZZRunStructural", ZZRunStructural) }

// ZZParseTwice (C19): what a text parses to does not depend on the text parsed before it in the
// same host process — in particular not on a rejected text whose error comes after complete
// statements (the grammar's reduce actions have already run by then).
func ZZParseTwice() {
	first := []string{
		"prc[a] : lin 1 = print earlier; close self )",
		"let g() : lin 1 = close self\nexec g() )",
		"type A = 1 )",
		"let f() : lin 1 = close self )",
		"prc[a : = \n",
		"",
		"prc[a] : lin 1 = close self",
	}[vn.Pick(7)]
	second := []struct {
		src          string
		procs, funcs int
	}{
		{"print later; close self", 1, 0},
		{"prc[b] : lin 1 = close self", 1, 0},
		{"let h() : lin 1 = close self\nexec h()", 1, 1},
		{"type B = lin 1\nprc[b] : B = close self\nprc[c] : lin 1 = wait b; close self", 2, 0},
	}[vn.Pick(4)]
	parser.ParseString(first)
	procs, _, genv, err := parser.ParseString(second.src)
	ok := err == nil && len(procs) == second.procs && genv != nil && genv.FunctionDefinitions != nil && len(*genv.FunctionDefinitions) == second.funcs
	vn.Assert("C19.parse-result-independent-of-earlier-texts", ok)
	if err == nil {
		vn.Observe("procs", len(procs))
	}
}

func init() { vn.Register("zzpub.ZZParseTwice", ZZParseTwice) }
