package cmd

// C18 — CLI gatekeeping: nothing runs unless parsing and typechecking succeed.

import vn "grits/zzvn"

// ZZC18Cli runs the real cmd.Cli for every valuation of the execution flags, every number of
// file arguments and every outcome of the parse / typecheck stages.
func ZZC18Cli() {
	vn.CliBegin()
	tc, ntc := vn.Bool(), vn.Bool()
	ex, nex := vn.Bool(), vn.Bool()
	syn, asyn := vn.Bool(), vn.Bool()
	verb := vn.Int(-1, 5)
	nargs := vn.Pick(3)
	// a token written after the file name: nothing, or one of the switches
	trail := []string{"", "--noexecute", "-execute=false", "--notypecheck", "-typecheck=false"}[vn.Pick(5)]
	parseOK, typeOK := vn.Bool(), vn.Bool()
	vn.CliFlagBool("typecheck", tc)
	vn.CliFlagBool("notypecheck", ntc)
	vn.CliFlagBool("execute", ex)
	vn.CliFlagBool("noexecute", nex)
	vn.CliFlagBool("sync", syn)
	vn.CliFlagBool("async", asyn)
	vn.CliFlagInt("verbosity", verb)
	vn.CliArgs(nargs, parseOK, typeOK)
	if trail != "" {
		vn.Assume(nargs == 1)
		vn.CliTrailing(trail)
	}

	typecheckRes := vn.And(vn.Not(ntc), tc)
	executeRes := vn.And(vn.Not(nex), ex)
	// switched off anywhere on the command line (the property: `--noexecute` never runs any
	// process; typechecking is skipped only when explicitly disabled)
	noExecAnywhere := vn.Or(vn.Not(executeRes), trail == "--noexecute" || trail == "-execute=false")
	noCheckAnywhere := vn.Or(vn.Not(typecheckRes), trail == "--notypecheck" || trail == "-typecheck=false")
	wantExit := vn.Or(nargs != 1, vn.Or(vn.Not(parseOK), vn.And(typecheckRes, vn.Not(typeOK))))
	if trail != "" || nargs == 2 {
		// whether a switch (or a second file) after the file name is an error or is honoured is
		// not fixed by the property: both a diagnostic exit and a run that honours it are acceptable
		vn.Expect(4)
		Cli()
		ran := vn.CliRan()
		vn.Assert("C18.noexecute-anywhere-never-runs", vn.Implies(ran, vn.Not(noExecAnywhere)))
		vn.Assert("C18.runs-only-checked-programs", vn.Implies(ran, vn.And(parseOK, vn.Or(typeOK, noCheckAnywhere))))
		return
	}
	if vn.Concretize(vn.B2I(wantExit), 0, 1) == 1 {
		vn.Expect(4) // a diagnostic and a non-zero exit status is the required behaviour here
	}
	Cli()
	// Cli returned normally (status 0)
	vn.Assert("C18.error-exits-nonzero", vn.Not(wantExit))
	ran := vn.CliRan()
	vn.Assert("C18.runs-iff-asked-and-checked", ran == vn.And(executeRes, vn.Or(syn, asyn)))
	t := vn.CliTypechecked()
	vn.Assert("C18.typecheck-iff-enabled", vn.Or(t < 0, (t == 1) == typecheckRes))
	vn.Observe("ran", ran)
}

func init() { vn.Register("cmd.ZZC18Cli", ZZC18Cli) }
