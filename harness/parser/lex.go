package parser

// C11 / C12 — the scanner on every rune string up to a length bound.
//
// The input is a sequence of symbolic runes (any Unicode scalar value). The real scanner and
// lexer run on it through strings.NewReader / bufio.Reader (modelled by their documented
// contract); a reference tokenizer transcribed from the README runs on the same runes.

import (
	"strings"

	vn "grits/zzvn"
)

const (
	zzRefEOF      = 0
	zzRefIllegal  = -1
	zzRefDontCare = -2 // behaviour the README does not fix (cut from the claim)
	zzRefHang     = -3 // unterminated block comment: C11's business
)

func zzIsWS(r rune) bool { return r == ' ' || r == '\t' || r == '\n' || r == '\v' || r == '\r' }
func zzIsWord(r rune) bool {
	return ('a' <= r && r <= 'z') || ('A' <= r && r <= 'Z') || ('0' <= r && r <= '9') || r == '_' || r == '\''
}

var zzKeywords = map[string]int{
	"send": SEND, "recv": RECEIVE, "case": CASE, "close": CLOSE, "wait": WAIT, "cast": CAST, "shift": SHIFT,
	"split": SPLIT, "new": NEW, "fwd": FORWARD, "type": TYPE, "let": LET, "prc": PRC, "self": SELF,
	"assuming": ASSUMING, "exec": EXEC, "print": PRINT,
}

// words the scanner reserves although the README does not list them: not part of the claim
var zzUndocumented = map[string]bool{
	"receive": true, "accept": true, "acc": true, "acquire": true, "acq": true, "detach": true, "det": true,
	"release": true, "rel": true, "drop": true, "push": true, "snew": true, "forward": true, "in": true,
	"end": true, "sprc": true,
}

// zzRefNext: the README's reading of the next token of rs starting at i.
func zzRefNext(rs []rune, i int) (code int, next int) {
	n := len(rs)
	for {
		// whitespace
		for i < n && zzIsWS(rs[i]) {
			i++
		}
		if i >= n {
			return zzRefEOF, i
		}
		// comments
		if rs[i] == '/' && i+1 < n && rs[i+1] == '/' {
			i += 2
			for i < n && rs[i] != '\n' {
				// the scanner also ends a line comment at its end-of-input sentinel U+0000
				if rs[i] == 0 {
					return zzRefDontCare, i
				}
				i++
			}
			if i < n {
				i++
			}
			continue
		}
		if rs[i] == '/' && i+1 < n && rs[i+1] == '*' {
			i += 2
			for {
				if i >= n {
					return zzRefHang, i
				}
				if rs[i] == 0 {
					// U+0000 is the scanner's end-of-input sentinel (as in line comments)
					return zzRefDontCare, i
				}
				if rs[i] == '*' {
					// the usual reading ends the comment at the first "*/"; the scanner ends it at
					// the first '/' after the first '*'. The two agree when only stars lie in between.
					j := i + 1
					for j < n && rs[j] == '*' {
						j++
					}
					if j < n && rs[j] == '/' {
						i = j + 1
						break
					}
					// something else follows the star(s): the README does not say which reading holds
					return zzRefDontCare, i
				}
				i++
			}
			continue
		}
		break
	}
	r := rs[i]
	switch r {
	case '>':
		return RANGLE, i + 1
	case '(':
		return LPAREN, i + 1
	case ')':
		return RPAREN, i + 1
	case '[':
		return LSBRACK, i + 1
	case ']':
		return RSBRACK, i + 1
	case '{':
		return LCBRACK, i + 1
	case '}':
		return RCBRACK, i + 1
	case '.':
		return DOT, i + 1
	case ';':
		return SEQUENCE, i + 1
	case ':':
		return COLON, i + 1
	case '|':
		return PIPE, i + 1
	case ',':
		return COMMA, i + 1
	case '+':
		return PLUS, i + 1
	case '*':
		return TIMES, i + 1
	case '&':
		return AMPERSAND, i + 1
	case '%':
		return zzRefDontCare, i + 1
	case '=':
		if i+1 < n && rs[i+1] == '>' {
			return RIGHT_ARROW, i + 2
		}
		return EQUALS, i + 1
	case '<':
		if i+1 < n && rs[i+1] == '-' {
			return LEFT_ARROW, i + 2
		}
		return LANGLE, i + 1
	case '-':
		if i+1 < n && rs[i+1] == '*' {
			return LOLLI, i + 2
		}
		if i+1 < n && rs[i+1] == 'o' {
			return zzRefDontCare, i + 2 // "-o" is accepted but undocumented
		}
		return MINUS, i + 1
	case '\\':
		if i+1 < n && rs[i+1] == '/' {
			return DOWN_ARROW, i + 2
		}
		return zzRefIllegal, i + 1
	case '/':
		if i+1 < n && rs[i+1] == '\\' {
			return UP_ARROW, i + 2
		}
		return zzRefIllegal, i + 1
	}
	if zzIsWord(r) {
		j := i
		for j < n && zzIsWord(rs[j]) {
			j++
		}
		if r == '1' && j == i+1 {
			return UNIT, j
		}
		w := string(rs[i:j])
		for kw, code := range zzKeywords {
			if vn.EqS(w, kw) {
				return code, j
			}
		}
		for kw := range zzUndocumented {
			if vn.EqS(w, kw) {
				return zzRefDontCare, j
			}
		}
		return LABEL, j
	}
	return zzRefIllegal, i + 1
}

func zzRunes() []rune {
	n := vn.Pick(vn.Param("N", 3) + 1)
	rs := make([]rune, n)
	alpha := vn.Param("ALPHA", 0)
	for i := range rs {
		if alpha == 2 {
			// comment alphabet: slash, star, a letter
			rs[i] = []rune{'/', '*', 'a'}[vn.Pick(3)]
		} else if alpha == 1 {
			// representative alphabet, to drive the comment / label / whitespace loops deeper
			rs[i] = []rune{'/', '*', 'a', '1', ' ', '\n', '@', 0}[vn.Pick(8)]
		} else {
			rs[i] = vn.Rune()
		}
	}
	return rs
}

// ZZC11Lex: calling Lex until it reports end of input terminates (loop / recursion unwinding
// limits of the run), does not panic, needs at most len+1 calls and a linear number of reads.
func ZZC11Lex() {
	rs := zzRunes()
	n := len(rs)
	// F7: an unterminated block comment makes both loops of skipToEndOfComment spin at end of input
	l := newLexer(strings.NewReader(string(rs)))
	val := &gritsSymType{}
	tok := 1
	calls := 0
	for calls <= n && tok > 0 {
		tok = l.Lex(val)
		calls++
	}
	vn.Assert("C11.eof-within-n+1-calls", tok <= 0)
	rc := vn.ReadCount()
	vn.Assert("C11.linear-reads", rc <= 5*n+5)
	vn.Observe("calls", calls)
}

// ZZC12Lex: token by token the real lexer agrees with the README's reading: documented tokens get
// their codes, an illegal rune is never read as end of input (nor as a legal token), and the
// end-of-input token is produced only when the whole input has been consumed.
func ZZC12Lex() {
	rs := zzRunes()
	n := len(rs)
	vn.Expect(2) // hangs are C11's finding, not C12's
	l := newLexer(strings.NewReader(string(rs)))
	val := &gritsSymType{}
	pos := 0
	for step := 0; step <= n; step++ {
		want, next := zzRefNext(rs, pos)
		if want == zzRefDontCare || want == zzRefHang {
			vn.Assume(false)
		}
		got := l.Lex(val)
		if want == zzRefIllegal {
			// F8: the illegal-token code equals the end-of-input code. The region is exactly that:
			// the lexer answered 0 for an illegal rune (anything else it does with one — skipping
			// it, reading it as a legal token — is a new violation)
			vn.Known("F8", got == 0)
		}
		switch {
		case want == zzRefIllegal:
			vn.Assert("C12.illegal-rune-not-a-token", got < LABEL || got > EXEC)
			vn.Assert("C12.illegal-rune-not-eof", got > 0)
		case want == zzRefEOF:
			vn.Assert("C12.eof-at-end", got <= 0)
		default:
			vn.Assert("C12.token-code", got == want)
		}
		if got <= 0 {
			// end of input reported: nothing may be left unread
			_, _, err := l.scanner.r.ReadRune()
			vn.Assert("C12.eof-only-at-end-of-input", err != nil)
			break
		}
		pos = next
	}
}

func init() {
	vn.Register("parser.ZZC11Lex", ZZC11Lex)
	vn.Register("parser.ZZC12Lex", ZZC12Lex)
}

// ZZC11Parse: the whole ParseString pipeline (scanner, yacc driver with its semantic actions,
// error channel, expandProcesses) on every rune string of length <= N returns — no hang, no
// blocked send on the one-slot error channel, no panic — with a program or an error.
func ZZC11Parse() {
	rs := zzRunes()
	procs, _, genv, err := ParseString(string(rs))
	vn.Assert("C11.parse-yields-program-or-error", err != nil || genv != nil)
	vn.Observe("error", err != nil)
	vn.Observe("processes", len(procs))
}

func init() { vn.Register("parser.ZZC11Parse", ZZC11Parse) }

func zzRunesN(max int) []rune {
	n := vn.Pick(max + 1)
	rs := make([]rune, n)
	for i := range rs {
		rs[i] = vn.Rune()
	}
	return rs
}

// ZZC19ParseTwice (C19, two-run non-interference of the parser): the result of parsing a text
// is the same from the initial state and after another (arbitrary) text has been parsed in
// the same process.
func ZZC19ParseTwice() {
	rs1 := zzRunesN(vn.Param("N1", 1))
	rs2 := zzRunesN(vn.Param("N2", 2))
	pa, na, ga, ea := ParseString(string(rs2))
	_, _, _, _ = ParseString(string(rs1))
	pb, nb, gb, eb := ParseString(string(rs2))
	same := (ea == nil) == (eb == nil) && len(pa) == len(pb) && len(na) == len(nb)
	if ea == nil && eb == nil {
		same = same && len(*ga.Types) == len(*gb.Types) && len(*ga.FunctionDefinitions) == len(*gb.FunctionDefinitions)
	}
	vn.Assert("C19.parse-result-independent-of-history", same)
}

func init() { vn.Register("parser.ZZC19ParseTwice", ZZC19ParseTwice) }
