package parser

// C12 (second half) — expandProcesses keeps every parsed statement.

import (
	"grits/process"
	"grits/types"

	vn "grits/zzvn"
)

var zzIdents = []string{"a", "b", "c", "f"}

// ZZC12Expand: for every list of <= N statements of every kind (as the grammar actions build
// them), the expanded program has exactly one process per `prc`/`exec`, one function per `let`,
// one type per `type` and every assumed name, in source order; an error is returned only for
// an `exec` of an unknown function or a multi-provider body naming one of its providers.
func ZZC12Expand() {
	n := vn.Pick(vn.Param("N", 3) + 1)
	var u allEnvironment
	nProc, nFun, nType, nAssume, nExec := 0, 0, 0, 0, 0
	var funNames []int
	var execNames []int
	var order []int // name index of each process-producing statement, in order (prc before exec)
	multiSelfRef := false
	for i := 0; i < n; i++ {
		kind := Kind(vn.Pick(5))
		ni := vn.Int(0, len(zzIdents)-1)
		name := vn.StrOf(ni, zzIdents...)
		st := unexpandedProcessOrFunction{kind: kind}
		switch kind {
		case PROCESS_DEF:
			nProc++
			order = append(order, ni)
			body := process.NewClose(process.Name{IsSelf: true})
			provs := []process.Name{{Ident: name, IsSelf: false}}
			if vn.Pick(2) == 1 {
				// two provider names; the body may (illegally) mention the first one directly
				provs = append(provs, process.Name{Ident: "z", IsSelf: false})
				if vn.Pick(2) == 1 {
					body = process.NewClose(process.Name{Ident: name, IsSelf: false})
					multiSelfRef = true
				}
			}
			st.proc = incompleteProcess{Body: body, Providers: provs, Type: types.ConvertSessionTypeInitialToSessionType(types.NewUnitTypeInitial())}
		case FUNCTION_DEF:
			nFun++
			funNames = append(funNames, ni)
			st.function = process.FunctionDefinition{FunctionName: name, Body: process.NewClose(process.Name{IsSelf: true}), Type: types.ConvertSessionTypeInitialToSessionType(types.NewUnitTypeInitial())}
		case TYPE_DEF:
			nType++
			st.session_type = types.SessionTypeDefinition{Name: name, SessionType: types.ConvertSessionTypeInitialToSessionType(types.NewUnitTypeInitial())}
		case ASSUMING_DEF:
			nAssume++
			st.assumedFreeNameTypes = []process.Name{{Ident: name, IsSelf: false}}
		case EXEC_DEF:
			nExec++
			execNames = append(execNames, ni)
			st.proc = incompleteProcess{Body: process.NewCall(name, []process.Name{})}
		}
		u.procsAndFuns = append(u.procsAndFuns, st)
	}
	// reference: which exec statements name a declared function
	missing := false
	for _, e := range execNames {
		found := false
		for _, f := range funNames {
			found = vn.Or(found, e == f)
		}
		missing = vn.Or(missing, vn.Not(found))
	}
	procs, assumed, genv, err := expandProcesses(u)
	vn.Observe("err", err != nil)
	if err != nil {
		vn.Assert("C12.expand-error-justified", vn.Or(missing, multiSelfRef))
		return
	}
	vn.Assert("C12.expand-no-missing-exec-accepted", vn.Not(missing))
	vn.Assert("C12.expand-process-count", len(procs) == nProc+nExec)
	vn.Assert("C12.expand-function-count", len(*genv.FunctionDefinitions) == nFun)
	vn.Assert("C12.expand-type-count", len(*genv.Types) == nType)
	vn.Assert("C12.expand-assumed-count", len(assumed) == nAssume)
	// declared processes keep their names and order
	okNames := true
	for i, ni := range order {
		if i < len(procs) && len(procs[i].Providers) > 0 {
			okNames = vn.And(okNames, vn.EqS(procs[i].Providers[0].Ident, vn.StrOf(ni, zzIdents...)))
		} else {
			okNames = false
		}
	}
	vn.Assert("C12.expand-process-names-in-order", okNames)
	for i, f := range funNames {
		vn.Assert("C12.expand-function-names-in-order", vn.EqS((*genv.FunctionDefinitions)[i].FunctionName, vn.StrOf(f, zzIdents...)))
	}
}

func init() { vn.Register("parser.ZZC12Expand", ZZC12Expand) }
