package process

// C14 — lexical scoping of the term operations: Substitute is capture-avoiding, FreeNames is
// the free-name set, CopyForm is a deep copy.

import (
	vn "grits/zzvn"
)

var zzSubIds = []string{"a", "b", "c"}

// zzSN: a name occurrence: symbolic identifier, concretely chosen initialisation state.
type zzSN struct {
	idx  int
	ch   int // 0 uninitialised, 1 channel #1, 2 channel #2
	self bool
}

type zzSubWorld struct {
	chans [3]chan Message
}

func (w *zzSubWorld) gen(allowInit bool) zzSN {
	n := zzSN{idx: vn.Int(0, len(zzSubIds)-1)}
	if allowInit {
		n.ch = vn.Pick(3)
	}
	return n
}

func (w *zzSubWorld) name(n zzSN) Name {
	return Name{Ident: vn.StrOf(n.idx, zzSubIds...), Channel: w.chans[n.ch], IsSelf: n.self}
}

// denotes: occurrence o is a reference to `old` (by channel identity once initialised, by
// identifier before).
func zzDenotes(o, old zzSN) bool {
	if o.self {
		// an occurrence that denotes the provider never refers to a client channel or binder,
		// whatever identifier it carries for display (the runtime builds such names after a
		// provider-side receive: NewSelf(<identifier of the channel taken over>))
		return false
	}
	if old.ch != 0 {
		return o.ch == old.ch
	}
	if o.ch != 0 {
		return false
	}
	return o.idx == old.idx
}

// binds: binder b (always an uninitialised identifier) captures references to `old`.
func zzBinds(b, old zzSN) bool {
	if old.ch != 0 {
		return false // a binder never captures an existing channel
	}
	return b.idx == old.idx
}

// after: what occurrence o must look like after [new/old], given whether a binder shields it.
func (w *zzSubWorld) check(id string, got Name, o, old, nw zzSN, shielded bool) {
	hit := vn.And(zzDenotes(o, old), vn.Not(shielded))
	newName := w.name(nw)
	isNew := vn.And(got.Channel == newName.Channel && got.IsSelf == newName.IsSelf, vn.Or(nw.ch != 0, vn.EqS(got.Ident, newName.Ident)))
	same := vn.And(vn.EqS(got.Ident, vn.StrOf(o.idx, zzSubIds...)), got.Channel == w.chans[o.ch] && got.IsSelf == o.self)
	vn.Assert(id+".free-occurrence-replaced", vn.Implies(hit, isNew))
	vn.Assert(id+".other-occurrence-untouched", vn.Implies(vn.Not(hit), same))
}

// ZZC14Subst: one binder layer over an axiom, every form kind, every coincidence of identifiers
// and channel identities among the occurrences, the binders, old and new.
func ZZC14Subst() {
	w := &zzSubWorld{}
	w.chans[1] = make(chan Message, 1)
	w.chans[2] = make(chan Message, 1)
	subj := w.gen(true)          // the outer form's subject (w in `recv w`)
	b1, b2 := w.gen(false), w.gen(false) // binders
	u1, u2, u3 := w.gen(true), w.gen(true), w.gen(true)
	old, nw := w.gen(true), w.gen(true)
	// one occurrence may denote the provider while carrying a display identifier
	u1.self = vn.Bool()
	vn.Assume(vn.Implies(u1.self, u1.ch == 0))
	inner := NewSend(w.name(u1), w.name(u2), w.name(u3))
	kind := vn.Pick(7)
	var f Form
	var shield bool
	switch kind {
	case 0:
		f = NewReceive(w.name(b1), w.name(b2), w.name(subj), inner)
		shield = vn.Or(zzBinds(b1, old), zzBinds(b2, old))
	case 1:
		f = NewCase(w.name(subj), []*BranchForm{NewBranch(Label{L: "l"}, w.name(b1), inner)})
		shield = zzBinds(b1, old)
	case 2:
		f = NewSplit(w.name(b1), w.name(b2), w.name(subj), inner)
		shield = vn.Or(zzBinds(b1, old), zzBinds(b2, old))
	case 3:
		f = NewShift(w.name(b1), w.name(subj), inner)
		shield = zzBinds(b1, old)
	case 4:
		f = NewNew(w.name(b1), NewClose(w.name(subj)), inner)
		shield = zzBinds(b1, old)
	case 5:
		f = NewWait(w.name(subj), inner)
		shield = false
	default:
		f = NewDrop(w.name(subj), inner)
		shield = false
	}
	// F12: Name.Substitute rewrites an uninitialised (bound) name whose identifier equals that of
	// an *initialised* old
	vn.Known("F12", old.ch != 0)
	f.Substitute(w.name(old), w.name(nw))
	w.check("C14.subst", inner.to_c, u1, old, nw, shield)
	w.check("C14.subst", inner.payload_c, u2, old, nw, shield)
	w.check("C14.subst", inner.continuation_c, u3, old, nw, shield)
	var s Name
	switch g := f.(type) {
	case *ReceiveForm:
		s = g.from_c
	case *CaseForm:
		s = g.from_c
	case *SplitForm:
		s = g.from_c
	case *ShiftForm:
		s = g.from_c
	case *NewForm:
		s = g.body.(*CloseForm).from_c
	case *WaitForm:
		s = g.to_c
	case *DropForm:
		s = g.client_c
	}
	w.check("C14.subst", s, subj, old, nw, false)
}

// ZZC14FreeNames: FreeNames is exactly the set of non-self names not captured by a binder.
func ZZC14FreeNames() {
	w := &zzSubWorld{}
	subj := w.gen(false)
	subj.self = vn.Bool()
	b1, b2 := w.gen(false), w.gen(false)
	u1, u2, u3 := w.gen(false), w.gen(false), w.gen(false)
	u1.self = vn.Bool()
	inner := NewSend(w.name(u1), w.name(u2), w.name(u3))
	kind := vn.Pick(5)
	var f Form
	bound := func(n zzSN) bool { return false }
	switch kind {
	case 0:
		f = NewReceive(w.name(b1), w.name(b2), w.name(subj), inner)
		bound = func(n zzSN) bool { return vn.Or(n.idx == b1.idx, n.idx == b2.idx) }
	case 1:
		f = NewCase(w.name(subj), []*BranchForm{NewBranch(Label{L: "l"}, w.name(b1), inner)})
		bound = func(n zzSN) bool { return n.idx == b1.idx }
	case 2:
		f = NewSplit(w.name(b1), w.name(b2), w.name(subj), inner)
		bound = func(n zzSN) bool { return vn.Or(n.idx == b1.idx, n.idx == b2.idx) }
	case 3:
		f = NewShift(w.name(b1), w.name(subj), inner)
		bound = func(n zzSN) bool { return n.idx == b1.idx }
	default:
		f = NewWait(w.name(subj), inner)
	}
	fn := f.FreeNames()
	for i := range zzSubIds {
		want := vn.And(vn.Not(subj.self), subj.idx == i)
		for _, u := range []zzSN{u1, u2, u3} {
			want = vn.Or(want, vn.And(vn.And(vn.Not(u.self), u.idx == i), vn.Not(bound(u))))
		}
		got := false
		for _, n := range fn {
			got = vn.Or(got, vn.And(!n.IsSelf, vn.EqS(n.Ident, zzSubIds[i])))
		}
		vn.Assert("C14.free-names-exact", got == want)
	}
}

// ZZC14FreeNamesRuntime: at run time a name is its channel, not its spelling: two occurrences
// spelled alike but bound to different channels are two free names, and one channel under two
// spellings is one. (The duplication and drop protocols are driven by FreeNames.)
func ZZC14FreeNamesRuntime() {
	w := &zzSubWorld{}
	w.chans[1] = make(chan Message, 1)
	w.chans[2] = make(chan Message, 1)
	subj := w.gen(true)
	b1, b2 := w.gen(false), w.gen(false)
	u1, u2, u3 := w.gen(true), w.gen(true), w.gen(true)
	u1.self = vn.Bool()
	inner := NewSend(w.name(u1), w.name(u2), w.name(u3))
	kind := vn.Pick(4)
	var f Form
	bound := func(n zzSN) bool { return false }
	uninit := func(n zzSN) bool { return n.ch == 0 }
	switch kind {
	case 0:
		f = NewReceive(w.name(b1), w.name(b2), w.name(subj), inner)
		bound = func(n zzSN) bool { return uninit(n) && vn.Or(n.idx == b1.idx, n.idx == b2.idx) }
	case 1:
		f = NewCase(w.name(subj), []*BranchForm{NewBranch(Label{L: "l"}, w.name(b1), inner)})
		bound = func(n zzSN) bool { return uninit(n) && n.idx == b1.idx }
	case 2:
		f = NewSplit(w.name(b1), w.name(b2), w.name(subj), inner)
		bound = func(n zzSN) bool { return uninit(n) && vn.Or(n.idx == b1.idx, n.idx == b2.idx) }
	default:
		f = NewWait(w.name(subj), inner)
	}
	fn := f.FreeNames()
	occ := []zzSN{subj, u1, u2, u3}
	// every channel that occurs free is reported exactly once
	for c := 1; c <= 2; c++ {
		want := false
		for _, o := range occ {
			want = want || (!o.self && o.ch == c)
		}
		n := 0
		for _, g := range fn {
			if !g.IsSelf && g.Channel == w.chans[c] {
				n++
			}
		}
		vn.Assert("C14.free-channels-exact", (want && n == 1) || (!want && n == 0))
	}
	// uninitialised names: by spelling, unless captured
	for i := range zzSubIds {
		want := vn.And(subj.ch == 0, subj.idx == i) // the subject is outside the binders' scope
		for _, o := range occ[1:] {
			want = vn.Or(want, vn.And(vn.And(!o.self && o.ch == 0, o.idx == i), vn.Not(bound(o))))
		}
		got := false
		for _, g := range fn {
			got = vn.Or(got, vn.And(!g.IsSelf && g.Channel == nil, vn.EqS(g.Ident, zzSubIds[i])))
		}
		vn.Assert("C14.free-names-exact", got == want)
	}
}

// ZZC14Copy: CopyForm yields an equal term that shares no name cell with the original.
func ZZC14Copy() {
	w := &zzSubWorld{}
	w.chans[1] = make(chan Message, 1)
	w.chans[2] = make(chan Message, 1)
	subj, b1, b2 := w.gen(true), w.gen(false), w.gen(false)
	u1, u2, u3 := w.gen(true), w.gen(true), w.gen(true)
	inner := NewSend(w.name(u1), w.name(u2), w.name(u3))
	kind := vn.Pick(6)
	var f Form
	switch kind {
	case 0:
		f = NewReceive(w.name(b1), w.name(b2), w.name(subj), inner)
	case 1:
		f = NewCase(w.name(subj), []*BranchForm{NewBranch(Label{L: "l"}, w.name(b1), inner)})
	case 2:
		f = NewSplit(w.name(b1), w.name(b2), w.name(subj), inner)
	case 3:
		f = NewShift(w.name(b1), w.name(subj), inner)
	case 4:
		f = NewNew(w.name(b1), NewClose(w.name(subj)), inner)
	default:
		f = NewWait(w.name(subj), inner)
	}
	cp := CopyForm(f)
	vn.Assert("C14.copy-equal", EqualForm(f, cp))
	// rewrite every channel #1 in the copy: the original must not change
	fresh := Name{Ident: "fresh", Channel: make(chan Message, 1)}
	cp.Substitute(Name{Ident: "zz", Channel: w.chans[1]}, fresh)
	cp.Substitute(Name{Ident: "a"}, fresh)
	vn.Assert("C14.copy-shares-nothing", vn.And(vn.EqS(inner.to_c.Ident, vn.StrOf(u1.idx, zzSubIds...)), inner.to_c.Channel == w.chans[u1.ch] && inner.payload_c.Channel == w.chans[u2.ch] && inner.continuation_c.Channel == w.chans[u3.ch]))
}

func init() {
	vn.Register("process.ZZC14Subst", ZZC14Subst)
	vn.Register("process.ZZC14FreeNames", ZZC14FreeNames)
	vn.Register("process.ZZC14FreeNamesRuntime", ZZC14FreeNamesRuntime)
	vn.Register("process.ZZC14Copy", ZZC14Copy)
}

// ZZC14DeclOrder: the verdict on function definitions and on process declarations does not
// depend on the order in which they are written.
func ZZC14DeclOrder() {
	c := zzNewCtx()
	fn := []string{"f", "g"}
	s0 := c.addFunction(vn.StrOf(vn.Int(0, 1), fn...))
	s1 := c.addFunction(vn.StrOf(vn.Int(0, 1), fn...))
	s0.body.accept, s1.body.accept = vn.Bool(), vn.Bool()
	fwd := *c.genv.FunctionDefinitions
	rev := []FunctionDefinition{fwd[1], fwd[0]}
	check := func(defs []FunctionDefinition) bool {
		g := &GlobalEnvironment{Types: c.genv.Types, FunctionDefinitions: &defs}
		err := preliminaryFunctionDefinitionsChecks(g)
		if err == nil {
			err = typecheckFunctionDefinitions(g)
		}
		return err == nil
	}
	a, b := check(fwd), check(rev)
	vn.Assert("C14.function-order-irrelevant", a == b)

	pn := []string{"m", "n", "o"}
	i0, i1 := vn.Int(0, 2), vn.Int(0, 2)
	q0, q1 := c.probe(vn.Bool()), c.probe(vn.Bool())
	n0, n1 := Name{Ident: vn.StrOf(i0, pn...)}, Name{Ident: vn.StrOf(i1, pn...)}
	switch vn.Pick(3) {
	case 1:
		q0.free = []Name{n1}
	case 2:
		q1.free = []Name{n0}
	}
	t0 := c.prov
	mk := func(first bool) bool {
		p0 := NewProcess(q0, []Name{n0}, t0.T, LINEAR, c.pos())
		p1 := NewProcess(q1, []Name{n1}, t0.T, LINEAR, c.pos())
		procs := []*Process{p0, p1}
		if !first {
			procs = []*Process{p1, p0}
		}
		assignTypesToProcessProviders(procs)
		err := preliminaryProcessesChecks(procs, nil, c.genv)
		if err == nil {
			err = typecheckProcesses(procs, nil, c.genv)
		}
		return err == nil
	}
	x, y := mk(true), mk(false)
	vn.Assert("C14.process-order-irrelevant", x == y)
}

func init() { vn.Register("process.ZZC14DeclOrder", ZZC14DeclOrder) }
