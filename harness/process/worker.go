package process

// C09 — the Typecheck worker protocol: at most one verdict, no success after an internal
// failure, no further work after the first error.

import (
	"time"

	"grits/position"
	"grits/types"

	vn "grits/zzvn"
)

func ZZC09Worker() {
	unit := func() types.SessionType {
		t := types.ConvertSessionTypeInitialToSessionType(types.NewUnitTypeInitial())
		return t
	}
	e1, e2, e3, e4, e5 := vn.Bool(), vn.Bool(), vn.Bool(), vn.Bool(), vn.Bool()
	boom := vn.Bool()
	// at most 3 simultaneous defects
	vn.Assume(vn.B2I(e1)+vn.B2I(e2)+vn.B2I(e3)+vn.B2I(e4)+vn.B2I(e5) <= 3)
	defs := []types.SessionTypeDefinition{{Name: "T", SessionType: unit()}}
	if e1 {
		defs = append(defs, types.SessionTypeDefinition{Name: "T", SessionType: unit()}) // duplicate type name
	}
	types.SetModalityTypeDef(defs)
	fq := &zzProbe{id: 0, accept: !e4, panics: boom}
	fd := FunctionDefinition{FunctionName: "f", Body: fq, Type: unit()}
	if e2 {
		fd.Type = nil // function without a type
	}
	funs := []FunctionDefinition{fd}
	pq := &zzProbe{id: 1, accept: !e5}
	if e3 {
		pq.free = []Name{{Ident: "nowhere"}} // undefined free name
	}
	procs := []*Process{NewProcess(pq, []Name{{Ident: "m", IsSelf: true}}, unit(), LINEAR, position.Position{})}
	genv := &GlobalEnvironment{Types: &defs, FunctionDefinitions: &funs}

	anyDefect := e1 || e2 || e3 || e4 || e5
	early := e1 || e2 || e3
	// F14: the worker keeps going after it has sent an error
	vn.Known("F14", anyDefect)
	// F6: the deferred completion signal fires while the worker is panicking
	vn.Known("F6", boom && !early)

	err := Typecheck(procs, nil, genv)
	reached := boom && !early // the panicking body is only reached if the preliminary checks pass
	if !reached {
		vn.Assert("C09.verdict-iff-defect", (err != nil) == anyDefect)
	} else {
		// nil result must imply that no internal panic occurred
		vn.Assert("C09.no-success-after-internal-failure", err != nil)
	}
	// let the worker run on: whatever it still does happens "in the background"
	vn.Drain()
	if early {
		vn.Assert("C09.no-work-after-first-error", fq.called == 0 && pq.called == 0)
	} else if e4 && !boom {
		vn.Assert("C09.no-work-after-first-error", pq.called == 0)
	}
	vn.Observe("fcalls", fq.called)
	vn.Observe("pcalls", pq.called)
}

func init() { vn.Register("process.ZZC09Worker", ZZC09Worker) }

// ZZC09Slow: a verdict does not depend on how long checking takes. One body takes 2.5 s to
// check (virtual time under gse, real time natively) and is then accepted or rejected; Typecheck
// must still answer with that verdict (a notice or time-out that turns slowness into success
// would let an ill-typed program through the gate).
func ZZC09Slow() {
	unit := func() types.SessionType {
		return types.ConvertSessionTypeInitialToSessionType(types.NewUnitTypeInitial())
	}
	bad := vn.Bool()
	inFunction := vn.Bool()
	defs := []types.SessionTypeDefinition{{Name: "T", SessionType: unit()}}
	types.SetModalityTypeDef(defs)
	fq := &zzProbe{id: 0, accept: true}
	pq := &zzProbe{id: 1, accept: true}
	slowOne := pq
	if inFunction {
		slowOne = fq
	}
	slowOne.slow = 2500 * time.Millisecond
	slowOne.accept = !bad
	funs := []FunctionDefinition{{FunctionName: "f", Body: fq, Type: unit()}}
	procs := []*Process{NewProcess(pq, []Name{{Ident: "m", IsSelf: true}}, unit(), LINEAR, position.Position{})}
	genv := &GlobalEnvironment{Types: &defs, FunctionDefinitions: &funs}
	err := Typecheck(procs, nil, genv)
	vn.Assert("C09.slow-typechecking-still-gets-its-verdict", (err != nil) == bad)
	vn.Assert("C18.slow-typechecking-does-not-open-the-gate", !bad || err != nil)
	vn.Drain()
	vn.Observe("rejected", err != nil)
}

func init() { vn.Register("process.ZZC09Slow", ZZC09Slow) }

// zzBuildProgram assembles a tiny program from defect switches (as ZZC09Worker does).
func zzBuildProgram(e1, e2, e3, e4, e5 bool) ([]*Process, *GlobalEnvironment) {
	unit := func() types.SessionType {
		return types.ConvertSessionTypeInitialToSessionType(types.NewUnitTypeInitial())
	}
	defs := []types.SessionTypeDefinition{{Name: "T", SessionType: unit()}}
	if e1 {
		defs = append(defs, types.SessionTypeDefinition{Name: "T", SessionType: unit()})
	}
	types.SetModalityTypeDef(defs)
	fd := FunctionDefinition{FunctionName: "f", Body: &zzProbe{id: 0, accept: !e4}, Type: unit()}
	if e2 {
		fd.Type = nil
	}
	funs := []FunctionDefinition{fd}
	pq := &zzProbe{id: 1, accept: !e5}
	if e3 {
		pq.free = []Name{{Ident: "nowhere"}}
	}
	procs := []*Process{NewProcess(pq, []Name{{Ident: "m", IsSelf: true}}, unit(), LINEAR, position.Position{})}
	return procs, &GlobalEnvironment{Types: &defs, FunctionDefinitions: &funs}
}

// ZZC19TypecheckTwice (C19): the verdict on a program is the same from the initial state and
// after another program (accepted or rejected, with whatever its worker goroutine leaves
// behind) has been typechecked in the same process.
func ZZC19TypecheckTwice() {
	a1, a2, a3, a4, a5 := vn.Bool(), vn.Bool(), vn.Bool(), vn.Bool(), vn.Bool()
	b1, b2, b3, b4, b5 := vn.Bool(), vn.Bool(), vn.Bool(), vn.Bool(), vn.Bool()
	pb0, gb0 := zzBuildProgram(b1, b2, b3, b4, b5)
	first := Typecheck(pb0, nil, gb0)
	pa, ga := zzBuildProgram(a1, a2, a3, a4, a5)
	_ = Typecheck(pa, nil, ga)
	vn.Drain()
	pb1, gb1 := zzBuildProgram(b1, b2, b3, b4, b5)
	second := Typecheck(pb1, nil, gb1)
	vn.Assert("C19.verdict-independent-of-history", (first == nil) == (second == nil))
	vn.Drain()
}

func init() { vn.Register("process.ZZC19TypecheckTwice", ZZC19TypecheckTwice) }
