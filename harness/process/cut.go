package process

// C01 (partial) — a typed principal cut is safe: if the real typechecker accepts a provider form P
// for `self : A` and a client form Q that uses `c : A`, then running the real transitions of P and
// Q against each other over the channel c exchanges one message that the receiver's code expects:
// no interpreter error, no panic, nobody left waiting for a message that was sent.

import (
	"grits/types"

	vn "grits/zzvn"
)

type zzCutNames struct {
	lab, l0, l1 int
}

func zzProviderForm(kind int, nm zzCutNames, u, v, x, y Name, q, q2 Form) Form {
	self := Name{IsSelf: true}
	switch kind {
	case 0:
		return NewSend(self, u, v)
	case 1:
		return NewReceive(x, y, self, q)
	case 2:
		return NewSelect(self, Label{L: types.ZZLabelName(nm.lab)}, u)
	case 3:
		return NewCase(self, []*BranchForm{NewBranch(Label{L: types.ZZLabelName(nm.l0)}, x, q), NewBranch(Label{L: types.ZZLabelName(nm.l1)}, y, q2)})
	case 4:
		return NewClose(self)
	case 5:
		return NewCast(self, u)
	}
	return NewShift(x, self, q)
}

func zzClientForm(kind int, nm zzCutNames, c, u, x, y Name, q, q2 Form) Form {
	self := Name{IsSelf: true}
	switch kind {
	case 0:
		return NewReceive(x, y, c, q)
	case 1:
		return NewSend(c, u, self)
	case 2:
		return NewCase(c, []*BranchForm{NewBranch(Label{L: types.ZZLabelName(nm.l0)}, x, q), NewBranch(Label{L: types.ZZLabelName(nm.l1)}, y, q2)})
	case 3:
		return NewSelect(c, Label{L: types.ZZLabelName(nm.lab)}, self)
	case 4:
		return NewWait(c, q)
	case 5:
		return NewShift(x, c, q)
	}
	return NewCast(c, self)
}

func ZZC01Cut() {
	k := vn.Param("K", 0)
	env := types.ZZGenEnv(k, 1)
	mode := vn.Int(0, 3)
	A := types.ZZGenNode(1, mode, env.Modes)
	defs := env.Defs
	funs := []FunctionDefinition{}
	genv := &GlobalEnvironment{Types: &defs, FunctionDefinitions: &funs, LogLevels: []LogLevel{}}
	nmP := zzCutNames{lab: vn.Int(0, 2), l0: vn.Int(0, 2), l1: vn.Int(0, 2)}
	nmQ := zzCutNames{lab: vn.Int(0, 2), l0: vn.Int(0, 2), l1: vn.Int(0, 2)}
	pk, qk := vn.Pick(7), vn.Pick(7)

	// ---- typing: P provides self : A ----
	tU := types.ZZGenNode(0, vn.Int(0, 3), env.Modes)
	tV := types.ZZGenNode(0, vn.Int(0, 3), env.Modes)
	var gP []Name
	switch pk {
	case 0:
		gP = []Name{{Ident: "u", Type: tU.T}, {Ident: "v", Type: tV.T}}
	case 2, 5:
		gP = []Name{{Ident: "u", Type: tU.T}}
	}
	tp, tp2 := &zzProbe{accept: true}, &zzProbe{accept: true}
	typedP := zzProviderForm(pk, nmP, Name{Ident: "u"}, Name{Ident: "v"}, Name{Ident: "x"}, Name{Ident: "y"}, tp, tp2)
	errP := typedP.typecheckForm(produceNameTypesCtx(gP), nil, A.T, env.Env, FunctionTypesEnv{}, genv)
	vn.Assume(errP == nil)

	// ---- typing: Q uses c : A (and provides some type of its own) ----
	provQ := types.ZZGenNode(0, vn.Int(0, 3), env.Modes)
	gQ := []Name{{Ident: "c", Type: A.T}}
	if qk == 1 {
		gQ = append(gQ, Name{Ident: "w", Type: types.ZZGenNode(0, vn.Int(0, 3), env.Modes).T})
	}
	tq, tq2 := &zzProbe{accept: true}, &zzProbe{accept: true}
	typedQ := zzClientForm(qk, nmQ, Name{Ident: "c"}, Name{Ident: "w"}, Name{Ident: "x"}, Name{Ident: "y"}, tq, tq2)
	errQ := typedQ.typecheckForm(produceNameTypesCtx(gQ), nil, provQ.T, env.Env, FunctionTypesEnv{}, genv)
	vn.Assume(errQ == nil)

	// ---- execution: the same two forms over real channels ----
	version := []Execution_Version{NORMAL_ASYNC, NORMAL_SYNC, NON_POLARIZED_SYNC}[vn.Pick(3)]
	w := zzNewStepWorld(version)
	c := w.re.CreateFreshChannel("c")
	piQ := w.re.CreateFreshChannel("q")
	rp, rp2, rq, rq2 := &zzTProbe{id: 0}, &zzTProbe{id: 1}, &zzTProbe{id: 2}, &zzTProbe{id: 3}
	runP := zzProviderForm(pk, nmP, w.ch[0], w.ch[1], Name{Ident: "x"}, Name{Ident: "y"}, rp, rp2)
	runQ := zzClientForm(qk, nmQ, c, w.ch[2], Name{Ident: "x"}, Name{Ident: "y"}, rq, rq2)
	procP := NewProcess(runP, []Name{c}, nil, LINEAR, zzPos())
	procQ := NewProcess(runQ, []Name{piQ}, nil, LINEAR, zzPos())
	// both sides run as goroutines under every interleaving of their channel operations
	vn.ChanSink(w.re.heartbeat)
	vn.SchedStart()
	if version == NON_POLARIZED_SYNC {
		go runP.TransitionNP(procP, w.re)
		go runQ.TransitionNP(procQ, w.re)
	} else {
		go runP.Transition(procP, w.re)
		go runQ.Transition(procQ, w.re)
	}
	vn.SchedQuiesce()
	vn.SchedStop()
	// a panic of either process (interpreter error) ends the path as a violation by itself.
	// The message was consumed and exactly one continuation of the receiving side resumed.
	pReceives := pk == 1 || pk == 3 || pk == 6
	consumed := len(c.Channel) == 0
	var resumed int
	if pReceives {
		resumed = rp.ran + rp2.ran
	} else {
		resumed = rq.ran + rq2.ran
	}
	vn.Assert("C01.cut-message-consumed", consumed)
	vn.Assert("C01.cut-receiver-resumes-once", resumed == 1)
	vn.Observe("pk", pk)
	vn.Observe("qk", qk)
}

func init() { vn.Register("process.ZZC01Cut", ZZC01Cut) }

// ZZC01CutFwd: the same cut with one forward in between: P provides c : A, F = `fwd self c`
// provides d : A2 (accepted by the real forward rule, i.e. the real EqualType), Q uses d : A2.
// Every message must still arrive at a receiver that expects it.
func ZZC01CutFwd() {
	k := vn.Param("K", 0)
	env := types.ZZGenEnv(k, 1)
	A := types.ZZGenNode(vn.Param("D", 1), vn.Int(0, 3), env.Modes)
	A2 := types.ZZGenNode(vn.Param("D", 1), vn.Int(0, 3), env.Modes)
	defs := env.Defs
	funs := []FunctionDefinition{}
	genv := &GlobalEnvironment{Types: &defs, FunctionDefinitions: &funs, LogLevels: []LogLevel{}}
	nmP := zzCutNames{lab: vn.Int(0, 2), l0: vn.Int(0, 2), l1: vn.Int(0, 2)}
	nmQ := zzCutNames{lab: vn.Int(0, 2), l0: vn.Int(0, 2), l1: vn.Int(0, 2)}
	pk, qk := vn.Pick(7), vn.Pick(7)

	tU := types.ZZGenNode(0, vn.Int(0, 3), env.Modes)
	tV := types.ZZGenNode(0, vn.Int(0, 3), env.Modes)
	var gP []Name
	switch pk {
	case 0:
		gP = []Name{{Ident: "u", Type: tU.T}, {Ident: "v", Type: tV.T}}
	case 2, 5:
		gP = []Name{{Ident: "u", Type: tU.T}}
	}
	typedP := zzProviderForm(pk, nmP, Name{Ident: "u"}, Name{Ident: "v"}, Name{Ident: "x"}, Name{Ident: "y"}, &zzProbe{accept: true}, &zzProbe{accept: true})
	vn.Assume(typedP.typecheckForm(produceNameTypesCtx(gP), nil, A.T, env.Env, FunctionTypesEnv{}, genv) == nil)

	typedF := NewForward(Name{IsSelf: true}, Name{Ident: "c"})
	vn.Assume(typedF.typecheckForm(produceNameTypesCtx([]Name{{Ident: "c", Type: A.T}}), nil, A2.T, env.Env, FunctionTypesEnv{}, genv) == nil)

	provQ := types.ZZGenNode(0, vn.Int(0, 3), env.Modes)
	gQ := []Name{{Ident: "d", Type: A2.T}}
	if qk == 1 {
		gQ = append(gQ, Name{Ident: "w", Type: types.ZZGenNode(0, vn.Int(0, 3), env.Modes).T})
	}
	typedQ := zzClientForm(qk, nmQ, Name{Ident: "d"}, Name{Ident: "w"}, Name{Ident: "x"}, Name{Ident: "y"}, &zzProbe{accept: true}, &zzProbe{accept: true})
	vn.Assume(typedQ.typecheckForm(produceNameTypesCtx(gQ), nil, provQ.T, env.Env, FunctionTypesEnv{}, genv) == nil)

	// ---- execution ----
	version := []Execution_Version{NORMAL_ASYNC, NORMAL_SYNC}[vn.Pick(2)]
	w := zzNewStepWorld(version)
	c := w.re.CreateFreshChannel("c")
	d := w.re.CreateFreshChannel("d")
	piQ := w.re.CreateFreshChannel("q")
	rp, rp2, rq, rq2 := &zzTProbe{id: 0}, &zzTProbe{id: 1}, &zzTProbe{id: 2}, &zzTProbe{id: 3}
	runP := zzProviderForm(pk, nmP, w.ch[0], w.ch[1], Name{Ident: "x"}, Name{Ident: "y"}, rp, rp2)
	runQ := zzClientForm(qk, nmQ, d, w.ch[2], Name{Ident: "x"}, Name{Ident: "y"}, rq, rq2)
	// the forward learns the direction from the (typechecked) polarity of what it forwards
	pol := types.NEGATIVE
	if pk == 0 || pk == 2 || pk == 4 || pk == 5 {
		pol = types.POSITIVE // P sends first: 1, ⊗, ⊕, ↓ are positive
	}
	cFwd := c
	cFwd.ExplicitPolarity = &pol
	runF := NewForward(Name{IsSelf: true}, cFwd)
	procP := NewProcess(runP, []Name{c}, nil, LINEAR, zzPos())
	procF := NewProcess(runF, []Name{d}, nil, LINEAR, zzPos())
	procQ := NewProcess(runQ, []Name{piQ}, nil, LINEAR, zzPos())
	// the three processes run under every interleaving of their channel operations
	vn.ChanSink(w.re.heartbeat)
	vn.SchedStart()
	go runP.Transition(procP, w.re)
	go runF.Transition(procF, w.re)
	go runQ.Transition(procQ, w.re)
	vn.SchedQuiesce()
	vn.SchedStop()
	pReceives := pk == 1 || pk == 3 || pk == 6
	var resumed int
	if pReceives {
		resumed = rp.ran + rp2.ran
	} else {
		resumed = rq.ran + rq2.ran
	}
	vn.Assert("C01.forwarded-cut-channels-drained", len(c.Channel) == 0 && len(d.Channel) == 0)
	vn.Assert("C01.forwarded-cut-receiver-resumes-once", resumed == 1)
}

func init() { vn.Register("process.ZZC01CutFwd", ZZC01CutFwd) }
