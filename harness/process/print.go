package process

// C15 (terms) — the real Form.String() of every form is, token for token, the text the README
// grammar reads back as that term. Names are `self` or arbitrary identifiers (opaque strings).

import vn "grits/zzvn"

type zzPName struct {
	self bool
	id   string
}

func zzGenPName(seq *int) zzPName {
	if vn.Param("NAMEPICK", 1) == 1 && vn.Pick(2) == 1 {
		return zzPName{self: true}
	}
	*seq = *seq + 1
	return zzPName{id: vn.OpaqueStr(*seq)}
}

func (n zzPName) name() Name {
	if n.self {
		return Name{IsSelf: true}
	}
	return Name{Ident: n.id}
}

func (n zzPName) ref() string {
	if n.self {
		return "self"
	}
	return n.id
}

// zzGenForm returns a real form of the given depth and its reference text.
func zzGenForm(depth int, seq *int) (Form, string) { return zzGenFormB(depth, seq, false) }

func zzGenFormB(depth int, seq *int, zzInCutBody bool) (Form, string) {
	if depth == 0 {
		w := zzGenPName(seq)
		return NewClose(w.name()), "close " + w.ref()
	}
	kind := vn.Pick(14)
	a, b, c := zzGenPName(seq), zzGenPName(seq), zzGenPName(seq)
	lab := vn.OpaqueStr(20 + *seq)
	switch kind {
	case 0:
		return NewSend(a.name(), b.name(), c.name()), "send " + a.ref() + " < " + b.ref() + " , " + c.ref() + " >"
	case 1:
		k, kt := zzGenFormB(depth-1, seq, zzInCutBody)
		return NewReceive(a.name(), b.name(), c.name(), k), "< " + a.ref() + " , " + b.ref() + " > <- recv " + c.ref() + " ; " + kt
	case 2:
		return NewSelect(a.name(), Label{L: lab}, b.name()), a.ref() + " . " + lab + " < " + b.ref() + " >"
	case 3:
		k0, kt0 := zzGenFormB(depth-1, seq, zzInCutBody)
		txt := "case " + a.ref() + " ( " + lab + " < " + b.ref() + " > => " + kt0
		brs := []*BranchForm{NewBranch(Label{L: lab}, b.name(), k0)}
		if vn.Pick(2) == 1 {
			k1, kt1 := zzGenFormB(depth-1, seq, zzInCutBody)
			lab2 := vn.OpaqueStr(40 + *seq)
			brs = append(brs, NewBranch(Label{L: lab2}, c.name(), k1))
			txt += " | " + lab2 + " < " + c.ref() + " > => " + kt1
		}
		return NewCase(a.name(), brs), txt + " )"
	case 4:
		// the spawned body gets one more level than the continuation (once): a body with a
		// continuation of its own must be printed in full, not abbreviated
		bd := depth - 1
		if !zzInCutBody && vn.Param("CUTBODY", 1) == 1 {
			bd = depth
		}
		body, bt := zzGenFormB(bd, seq, true)
		k, kt := zzGenFormB(depth-1, seq, zzInCutBody)
		return NewNew(a.name(), body, k), a.ref() + " <- new ( " + bt + " ) ; " + kt
	case 5:
		return NewClose(a.name()), "close " + a.ref()
	case 6:
		return NewForward(a.name(), b.name()), "fwd " + a.ref() + " " + b.ref()
	case 7:
		k, kt := zzGenFormB(depth-1, seq, zzInCutBody)
		return NewSplit(a.name(), b.name(), c.name(), k), "< " + a.ref() + " , " + b.ref() + " > <- split " + c.ref() + " ; " + kt
	case 8:
		args := []Name{a.name()}
		txt := lab + " ( " + a.ref()
		if vn.Pick(2) == 1 {
			args = append(args, b.name())
			txt += " , " + b.ref()
		}
		return NewCall(lab, args), txt + " )"
	case 9:
		k, kt := zzGenFormB(depth-1, seq, zzInCutBody)
		return NewWait(a.name(), k), "wait " + a.ref() + " ; " + kt
	case 10:
		return NewCast(a.name(), b.name()), "cast " + a.ref() + " < " + b.ref() + " >"
	case 11:
		k, kt := zzGenFormB(depth-1, seq, zzInCutBody)
		return NewShift(a.name(), b.name(), k), a.ref() + " <- shift " + b.ref() + " ; " + kt
	case 12:
		k, kt := zzGenFormB(depth-1, seq, zzInCutBody)
		return NewDrop(a.name(), k), "drop " + a.ref() + " ; " + kt
	}
	k, kt := zzGenFormB(depth-1, seq, zzInCutBody)
	return NewPrint(Label{L: lab}, k), "print " + lab + " ; " + kt
}

func ZZC15Forms() {
	seq := 0
	f, want := zzGenForm(vn.Param("D", 1), &seq)
	got := f.String()
	vn.Assert("C15.term-text-reads-back", vn.EqS(vn.Tokens(got), vn.Tokens(want)))
}

func init() { vn.Register("process.ZZC15Forms", ZZC15Forms) }
