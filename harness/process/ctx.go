package process

// Shared set-up of the typing-rule harnesses (C05, C06, C07, C09, C14).
//
// One symbolic typing judgement  Γ ⊢ F :: (π : P): Γ has G entries with symbolic identifiers and
// lazy types over a symbolic type environment, π is `self` or a symbolic shadow provider name, and
// F is one real form whose continuations are *probes* (forms that record the judgement they are
// checked under and answer with a nondeterministic verdict).

import (
	"time"

	"grits/position"
	"grits/types"

	vn "grits/zzvn"
)

var zzIds = []string{"a", "b", "c", "d"}

// zzN is a symbolic channel name as the grammar builds it.
type zzN struct {
	idx  int  // identifier (index into zzIds)
	self bool // written `self`
	pol  int  // explicit polarity annotation: 0 none, 1 `+`, 2 `-` (only with param POL=1)
}

func (n zzN) name() Name {
	var pol *types.Polarity
	switch n.pol {
	case 1:
		p := types.POSITIVE
		pol = &p
	case 2:
		p := types.NEGATIVE
		pol = &p
	case 3:
		// symbolic annotation: `+` or `-`
		p := types.Polarity(vn.Int(int(types.POSITIVE), int(types.NEGATIVE)))
		pol = &p
	}
	if n.self {
		return Name{IsSelf: true, ExplicitPolarity: pol}
	}
	return Name{Ident: vn.StrOf(n.idx, zzIds...), IsSelf: false, ExplicitPolarity: pol}
}

// genName: a fresh symbolic name. With param POL=1 exactly one name of the form (chosen
// nondeterministically, or none) carries an explicit polarity annotation.
func (c *zzCtx) genName() zzN {
	n := zzN{idx: vn.Int(0, len(zzIds)-1), self: vn.Bool()}
	c.nameSeq++
	if c.polSlot == c.nameSeq {
		n.pol = c.polVal
	}
	if vn.Param("POL", 0) == 2 {
		n.pol = 3
	}
	return n
}

// zzProbe stands for every continuation.
type zzProbe struct {
	id        int
	accept    bool
	called    int
	gamma     NamesTypesCtx
	gammaRef  NamesTypesCtx // the very map handed over (aliasing observable)
	shadow    *Name
	provider  types.SessionType
	boundSeen []Name
	free      []Name
	panics    bool
	slow      time.Duration // the body takes this long to check
}

func (p *zzProbe) String() string                                   { return "probe" }
func (p *zzProbe) StringShort() string                              { return "probe" }
func (p *zzProbe) Polarity(bool, *GlobalEnvironment) types.Polarity { return types.UNKNOWN }
func (p *zzProbe) FreeNames() []Name                                { return p.free }
func (p *zzProbe) Substitute(Name, Name)                            {}
func (p *zzProbe) Transition(*Process, *RuntimeEnvironment)         {}
func (p *zzProbe) TransitionNP(*Process, *RuntimeEnvironment)       {}
func (p *zzProbe) typecheckForm(g NamesTypesCtx, shadow *Name, prov types.SessionType, a types.LabelledTypesEnv, sigma FunctionTypesEnv, globalEnv *GlobalEnvironment) *TypeError {
	p.called++
	if p.slow > 0 {
		time.Sleep(p.slow)
	}
	if p.panics {
		panic("internal failure injected by the probe")
	}
	p.gamma = copyContext(g)
	p.gammaRef = g
	p.shadow = shadow
	p.provider = prov
	if p.accept {
		return nil
	}
	return TypeErrorf("probe %d rejects", p.id)
}

type zzCtx struct {
	env       *types.ZZEnv
	g         int
	gIdx      []int
	gNode     []*types.ZZNode
	gamma     NamesTypesCtx
	hasShadow bool
	shadowIdx int
	shadow    *Name
	prov      *types.ZZNode
	sigma     FunctionTypesEnv
	genv      *GlobalEnvironment
	probes    []*zzProbe
	nameSeq   int
	polSlot   int
	polVal    int
}

func zzNewCtx() *zzCtx {
	c := &zzCtx{}
	if vn.Param("POL", 0) == 1 {
		c.polSlot = vn.Pick(5)
		c.polVal = vn.Pick(2) + 1
	}
	k := vn.Param("K", 1)
	d := vn.Param("D", 1)
	c.g = vn.Pick(vn.Param("G", 2) + 1)
	c.env = types.ZZGenEnv(k, 1)
	var names []Name
	for i := 0; i < c.g; i++ {
		idx := vn.Int(0, len(zzIds)-1)
		for _, o := range c.gIdx {
			vn.Assume(idx != o)
		}
		n := types.ZZGenNode(vn.Param("GD", 0), vn.Int(0, 3), c.env.Modes)
		c.gIdx = append(c.gIdx, idx)
		c.gNode = append(c.gNode, n)
		names = append(names, Name{Ident: vn.StrOf(idx, zzIds...), Type: n.T})
	}
	c.gamma = produceNameTypesCtx(names)
	// an entry is either a declared parameter / free name (its Name field is filled, as
	// produceNameTypesCtx does) or was added by an enclosing binder (only the type is recorded)
	for i := range names {
		byBinder := vn.Bool()
		nt := c.gamma[names[i].Ident]
		nt.Name.Ident = vn.IteS(byBinder, "", names[i].Ident)
		c.gamma[names[i].Ident] = nt
	}
	c.hasShadow = vn.Pick(2) == 1
	if c.hasShadow {
		c.shadowIdx = vn.Int(0, len(zzIds)-1)
		// the shadow provider is a bound name of an enclosing binder: it is not in Γ
		for _, o := range c.gIdx {
			vn.Assume(c.shadowIdx != o)
		}
		c.shadow = &Name{Ident: vn.StrOf(c.shadowIdx, zzIds...)}
	}
	c.prov = types.ZZGenNode(vn.Param("PD", d), vn.Int(0, 3), c.env.Modes)
	defs := c.env.Defs
	funs := []FunctionDefinition{}
	c.genv = &GlobalEnvironment{Types: &defs, FunctionDefinitions: &funs}
	c.sigma = FunctionTypesEnv{}
	return c
}

func (c *zzCtx) probe(accept bool) *zzProbe {
	p := &zzProbe{id: len(c.probes), accept: accept}
	c.probes = append(c.probes, p)
	return p
}

// isProv: n denotes the provider (self, or the shadow provider's identifier).
func (c *zzCtx) isProv(n zzN) bool {
	if !c.hasShadow {
		return n.self
	}
	return vn.Or(n.self, n.idx == c.shadowIdx)
}

// inG: n is a client name available in Γ.
func (c *zzCtx) inG(n zzN) bool {
	r := false
	for _, i := range c.gIdx {
		r = vn.Or(r, n.idx == i)
	}
	return vn.And(vn.Not(n.self), r)
}

// identInG: the identifier (regardless of self-ness) is bound in Γ.
func (c *zzCtx) identInG(idx int) bool {
	r := false
	for _, i := range c.gIdx {
		r = vn.Or(r, idx == i)
	}
	return r
}

// typeG: the type Γ gives to n (meaningful when inG(n)).
func (c *zzCtx) typeG(n zzN) *types.ZZNode {
	if len(c.gNode) == 0 {
		return c.prov // masked: inG(n) is false for an empty Γ
	}
	r := c.gNode[len(c.gNode)-1]
	for i := len(c.gNode) - 2; i >= 0; i-- {
		r = types.ZZMerge(n.idx == c.gIdx[i], c.gNode[i], r)
	}
	return r
}

// rest: number of Γ entries other than the given (distinct, in-Γ) names.
func (c *zzCtx) restIs(n int, used ...zzN) bool {
	return c.g-len(used) == n
}

func (c *zzCtx) run(f Form) (accepted bool, panicked bool) {
	var err *TypeError
	panicked = vn.Try(func() {
		err = f.typecheckForm(c.gamma, c.shadow, c.prov.T, c.env.Env, c.sigma, c.genv)
	})
	// an internal panic is not an acceptance (C09 reports it; C07 must not read it as a verdict)
	return err == nil && !panicked, panicked
}

// handedGamma checks the Γ recorded by probe p: exactly the original entries except `consumed`,
// plus the `bound` names with the given types.
type zzBind struct {
	n    zzN
	node *types.ZZNode
}

func (c *zzCtx) gammaIs(p *zzProbe, consumed []zzN, bound []zzBind) bool {
	ok := true
	want := 0
	for i, idx := range c.gIdx {
		gone := false
		for _, u := range consumed {
			gone = vn.Or(gone, vn.And(vn.Not(u.self), u.idx == idx))
		}
		rebound := false
		for _, b := range bound {
			rebound = vn.Or(rebound, b.n.idx == idx)
		}
		nt, has := p.gamma[vn.StrOf(idx, zzIds...)]
		if has {
			// untouched entries keep the very type object they had; a consumed identifier may be
			// bound again by the rule (its new type is checked below)
			ok = vn.And(ok, vn.Or(vn.And(vn.Not(gone), nt.Type == c.gNode[i].T), vn.And(gone, rebound)))
		} else {
			ok = vn.And(ok, vn.And(gone, vn.Not(rebound)))
		}
		want += vn.B2I(vn.Not(gone))
	}
	for _, b := range bound {
		nt, has := p.gamma[vn.StrOf(b.n.idx, zzIds...)]
		if has && nt.Type != nil {
			ok = vn.And(ok, c.sameType(nt.Type, b.node))
		} else {
			ok = false
		}
		want++
	}
	return vn.And(ok, len(p.gamma) == want)
}

func (c *zzCtx) shadowIs(p *zzProbe, n zzN) bool {
	return p.shadow != nil && vn.EqS(p.shadow.Ident, vn.StrOf(n.idx, zzIds...))
}

func (c *zzCtx) shadowUnchanged(p *zzProbe) bool { return p.shadow == c.shadow }

func (c *zzCtx) providerIs(p *zzProbe, node *types.ZZNode) bool {
	return p.provider != nil && c.sameType(p.provider, node)
}

// sameType: the real type handed on is the reference one: the very object (possibly unfolded),
// or — if the implementation chose to copy it — an equal type.
func (c *zzCtx) sameType(real types.SessionType, node *types.ZZNode) bool {
	id := vn.Or(real == node.T, real == c.env.Unf(node).T)
	if vn.Concretize(vn.B2I(id), 0, 1) == 1 {
		return true
	}
	return types.EqualType(real, node.T, c.env.Env)
}

// fresh: binder b is not bound in Γ (after `consumed` were taken), not the provider, and distinct
// from the other binders.
func (c *zzCtx) fresh(b zzN, consumed []zzN, others ...zzN) bool {
	r := vn.Not(b.self)
	for _, idx := range c.gIdx {
		gone := false
		for _, u := range consumed {
			gone = vn.Or(gone, vn.And(vn.Not(u.self), u.idx == idx))
		}
		r = vn.And(r, vn.Or(gone, b.idx != idx))
	}
	if c.hasShadow {
		r = vn.And(r, b.idx != c.shadowIdx)
	}
	for _, o := range others {
		r = vn.And(r, vn.Or(o.self, o.idx != b.idx))
	}
	return r
}

func (c *zzCtx) pos() position.Position { return position.Position{} }

func zzPos() position.Position { return position.Position{} }
