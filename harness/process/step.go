package process

// C04 (partial) — one step of the polarised interpreter = one reduction of the SAX semantics.
//
// One process, body = one real form whose continuations are probes, run from an arbitrary
// local state: provider channel π, client channels, and (for receiving forms) one incoming
// message with a symbolic rule / label / payload. The real Transition method runs on the
// engine's channel model; the result is compared with the reference step table (DESIGN.md
// Appendix B). Goroutines spawned by the step run after it (run-to-completion).

import (
	"context"

	"grits/types"

	vn "grits/zzvn"
)

// zzTProbe: a continuation body that records the process state it is resumed in.
type zzTProbe struct {
	id     int
	ran    int
	provs  []Name
	body   Form
	substs [][2]Name
}

func (p *zzTProbe) String() string                                   { return "probe" }
func (p *zzTProbe) StringShort() string                              { return "probe" }
func (p *zzTProbe) Polarity(bool, *GlobalEnvironment) types.Polarity { return types.UNKNOWN }
func (p *zzTProbe) FreeNames() []Name                                { return nil }
func (p *zzTProbe) Substitute(old, new Name)                         { p.substs = append(p.substs, [2]Name{old, new}) }
func (p *zzTProbe) Transition(proc *Process, re *RuntimeEnvironment) {
	p.ran++
	p.provs = proc.Providers
	p.body = proc.Body
}
func (p *zzTProbe) TransitionNP(proc *Process, re *RuntimeEnvironment) { p.Transition(proc, re) }
func (p *zzTProbe) typecheckForm(NamesTypesCtx, *Name, types.SessionType, types.LabelledTypesEnv, FunctionTypesEnv, *GlobalEnvironment) *TypeError {
	return nil
}

type zzStepWorld struct {
	re   *RuntimeEnvironment
	pi   Name // the provider channel of the process under test
	ch   [3]Name
	proc *Process
}

func zzNewStepWorld(version Execution_Version) *zzStepWorld {
	funs := []FunctionDefinition{}
	defs := []types.SessionTypeDefinition{}
	w := &zzStepWorld{}
	w.re = &RuntimeEnvironment{
		GlobalEnvironment: &GlobalEnvironment{FunctionDefinitions: &funs, Types: &defs, LogLevels: []LogLevel{}},
		heartbeat:         make(chan struct{}, 4096),
		ctx:               context.Background(),
		ExecutionVersion:  version,
		Quiet:             true,
		errorChan:         make(chan error, 16),
	}
	w.pi = w.re.CreateFreshChannel("pi")
	for i := range w.ch {
		w.ch[i] = w.re.CreateFreshChannel([]string{"u", "v", "w"}[i])
	}
	return w
}

// subst: the probe saw the substitution [to/from] with `to` denoting channel c (or self).
func zzSubstIs(s [2]Name, from Name, toChan chan Message, toSelf bool) bool {
	return s[0].Ident == from.Ident && s[1].Channel == toChan && s[1].IsSelf == toSelf
}

func sameChan(a, b Name) bool { return a.Channel == b.Channel }

// ZZC04Step: sending forms, receiving forms against every incoming data rule, cut and print.
func ZZC04Step() {
	w := zzNewStepWorld(NORMAL_ASYNC)
	self := Name{IsSelf: true}
	x, y := Name{Ident: "x"}, Name{Ident: "y"}
	q, q2 := &zzTProbe{id: 0}, &zzTProbe{id: 1}
	rule := Rule(vn.Int(int(SND), int(BRA))) // incoming data rule
	lab := vn.StrOf(vn.Int(0, 2), "l", "m", "n")
	l0, l1 := vn.StrOf(vn.Int(0, 2), "l", "m", "n"), vn.StrOf(vn.Int(0, 2), "l", "m", "n")
	incoming := Message{Rule: rule, Channel1: w.ch[1], Channel2: w.ch[2], Label: Label{L: lab}}
	kind := vn.Pick(14)
	var body Form
	switch kind {
	case 0:
		body = NewSend(self, w.ch[0], w.ch[1])
	case 1:
		body = NewSend(w.ch[0], w.ch[1], self)
	case 2:
		body = NewReceive(x, y, self, q)
	case 3:
		body = NewReceive(x, y, w.ch[0], q)
	case 4:
		body = NewSelect(self, Label{L: lab}, w.ch[0])
	case 5:
		body = NewSelect(w.ch[0], Label{L: lab}, self)
	case 6:
		body = NewCase(self, []*BranchForm{NewBranch(Label{L: l0}, x, q), NewBranch(Label{L: l1}, y, q2)})
	case 7:
		body = NewCase(w.ch[0], []*BranchForm{NewBranch(Label{L: l0}, x, q), NewBranch(Label{L: l1}, y, q2)})
	case 8:
		body = NewClose(self)
	case 9:
		body = NewWait(w.ch[0], q)
	case 10:
		body = NewCast(self, w.ch[0])
	case 11:
		body = NewShift(x, w.ch[0], q)
	case 12:
		body = NewNew(x, q2, q)
	default:
		body = NewPrint(Label{L: lab}, q)
	}
	w.proc = NewProcess(body, []Name{w.pi}, nil, LINEAR, zzPos())
	receiving := kind == 2 || kind == 3 || kind == 6 || kind == 7 || kind == 9 || kind == 11
	from := w.ch[0].Channel
	if kind == 2 || kind == 6 {
		from = w.pi.Channel
	}
	if receiving {
		from <- incoming
	}
	failed := vn.Try(func() { body.Transition(w.proc, w.re) })
	vn.Drain()

	out := func(c chan Message) (Message, bool) {
		select {
		case m := <-c:
			return m, true
		default:
			return Message{}, false
		}
	}
	switch kind {
	case 0: // send self<u,v>  ==>  π!<SND,u,v>, terminate
		m, ok := out(w.pi.Channel)
		vn.Assert("C04.step-send-provider", !failed && ok && m.Rule == SND && sameChan(m.Channel1, w.ch[0]) && sameChan(m.Channel2, w.ch[1]))
	case 1: // send u<v,self>  ==>  u!<RCV,v,π>
		m, ok := out(w.ch[0].Channel)
		vn.Assert("C04.step-send-client", !failed && ok && m.Rule == RCV && sameChan(m.Channel1, w.ch[1]) && sameChan(m.Channel2, w.pi))
	case 2: // <x,y> <- recv self; Q
		if vn.Concretize(int(rule), int(SND), int(BRA)) == int(RCV) {
			okS := len(q.substs) == 2 && zzSubstIs(q.substs[0], x, w.ch[1].Channel, false) && zzSubstIs(q.substs[1], y, nil, true)
			vn.Assert("C04.step-receive-provider", !failed && q.ran == 1 && okS && q.body == Form(q) && len(q.provs) == 1 && sameChan(q.provs[0], w.ch[2]))
		} else {
			vn.Assert("C04.step-wrong-message-rejected", failed && q.ran == 0)
		}
	case 3: // <x,y> <- recv u; Q
		if vn.Concretize(int(rule), int(SND), int(BRA)) == int(SND) {
			okS := len(q.substs) == 2 && zzSubstIs(q.substs[0], x, w.ch[1].Channel, false) && zzSubstIs(q.substs[1], y, w.ch[2].Channel, false)
			vn.Assert("C04.step-receive-client", !failed && q.ran == 1 && okS && q.body == Form(q) && sameChan(q.provs[0], w.pi))
		} else {
			vn.Assert("C04.step-wrong-message-rejected", failed && q.ran == 0)
		}
	case 4: // self.l<u>  ==>  π!<SEL,u,l>
		m, ok := out(w.pi.Channel)
		vn.Assert("C04.step-select-provider", vn.And(!failed && ok && m.Rule == SEL && sameChan(m.Channel1, w.ch[0]), vn.EqS(m.Label.L, lab)))
	case 5: // u.l<self>  ==>  u!<BRA,π,l>
		m, ok := out(w.ch[0].Channel)
		vn.Assert("C04.step-select-client", vn.And(!failed && ok && m.Rule == BRA && sameChan(m.Channel1, w.pi), vn.EqS(m.Label.L, lab)))
	case 6, 7: // case
		wantRule := BRA
		if kind == 7 {
			wantRule = SEL
		}
		if vn.Concretize(int(rule), int(SND), int(BRA)) != int(wantRule) {
			vn.Assert("C04.step-wrong-message-rejected", failed && q.ran == 0 && q2.ran == 0)
			break
		}
		first := vn.Concretize(vn.B2I(vn.EqS(l0, lab)), 0, 1) == 1
		second := !first && vn.Concretize(vn.B2I(vn.EqS(l1, lab)), 0, 1) == 1
		switch {
		case first:
			vn.Assert("C04.step-case-takes-matching-branch", !failed && q.ran == 1 && q2.ran == 0 && len(q.substs) == 1 && q.substs[0][0].Ident == "x")
			if kind == 6 {
				vn.Assert("C04.step-case-provider-handover", q.substs[0][1].IsSelf && len(q.provs) == 1 && sameChan(q.provs[0], w.ch[1]))
			} else {
				vn.Assert("C04.step-case-client-payload", q.substs[0][1].Channel == w.ch[1].Channel && sameChan(q.provs[0], w.pi))
			}
		case second:
			vn.Assert("C04.step-case-takes-matching-branch", !failed && q.ran == 0 && q2.ran == 1 && len(q2.substs) == 1 && q2.substs[0][0].Ident == "y")
		default:
			vn.Assert("C04.step-unknown-label-rejected", failed && q.ran == 0 && q2.ran == 0)
		}
	case 8: // close self ==> π!<CLS>
		m, ok := out(w.pi.Channel)
		vn.Assert("C04.step-close", !failed && ok && m.Rule == CLS)
	case 9: // wait u; Q
		if vn.Concretize(int(rule), int(SND), int(BRA)) == int(CLS) {
			vn.Assert("C04.step-wait", !failed && q.ran == 1 && len(q.substs) == 0 && sameChan(q.provs[0], w.pi))
		} else {
			vn.Assert("C04.step-wrong-message-rejected", failed && q.ran == 0)
		}
	case 10: // cast self<u> ==> π!<CST,u>
		m, ok := out(w.pi.Channel)
		vn.Assert("C04.step-cast-provider", !failed && ok && m.Rule == CST && sameChan(m.Channel1, w.ch[0]))
	case 11: // x <- shift u; Q
		if vn.Concretize(int(rule), int(SND), int(BRA)) == int(CST) {
			vn.Assert("C04.step-shift-client", !failed && q.ran == 1 && len(q.substs) == 1 && zzSubstIs(q.substs[0], x, w.ch[1].Channel, false))
		} else {
			vn.Assert("C04.step-wrong-message-rejected", failed && q.ran == 0)
		}
	case 12: // x <- new B; Q ==> fresh c; spawn <B,[c]>; Q[c/x]
		okCut := !failed && q.ran == 1 && q2.ran == 1 && len(q.substs) == 1 && q.substs[0][0].Ident == "x"
		if okCut {
			c := q.substs[0][1]
			fresh := c.Channel != nil && c.Channel != w.pi.Channel && c.Channel != w.ch[0].Channel && c.Channel != w.ch[1].Channel && c.Channel != w.ch[2].Channel
			okCut = fresh && len(q2.provs) == 1 && q2.provs[0].Channel == c.Channel && sameChan(q.provs[0], w.pi) && len(q2.substs) == 0
		}
		vn.Assert("C04.step-cut", okCut)
	default: // print l; Q
		vn.Assert("C04.step-print-continues", !failed && q.ran == 1 && len(q.substs) == 0)
	}
	// a sending step never consumes anything and sends exactly one message
	if !receiving && kind != 12 && kind != 13 {
		_, more1 := out(w.pi.Channel)
		_, more2 := out(w.ch[0].Channel)
		vn.Assert("C04.step-exactly-one-message", !more1 && !more2)
	}
}

func init() { vn.Register("process.ZZC04Step", ZZC04Step) }

// ZZC04Dup: a process with n > 1 providers never sends or consumes a data message; it is
// replaced by n copies over pairwise fresh channels, one forward per free name that provides the
// n fresh copies of that name, and the original terminates. Internal forms (cut, split, drop,
// call, print) with several providers also duplicate first.
func ZZC04Dup() {
	w := zzNewStepWorld(NORMAL_ASYNC)
	neg := types.NEGATIVE
	u, v := w.ch[0], w.ch[1]
	u.ExplicitPolarity, v.ExplicitPolarity = &neg, &neg
	pi2 := w.re.CreateFreshChannel("pi2")
	kind := vn.Pick(3)
	var body Form
	switch kind {
	case 0:
		body = NewSend(Name{IsSelf: true}, u, v)
	case 1:
		// a receiving form with a pending message must not consume it either
		body = NewReceive(Name{Ident: "x"}, Name{Ident: "y"}, u, NewSend(Name{IsSelf: true}, Name{Ident: "x"}, v))
		u.Channel <- Message{Rule: SND, Channel1: w.ch[2], Channel2: w.ch[2]}
	default:
		body = NewPrint(Label{L: "l"}, NewSend(Name{IsSelf: true}, u, v))
	}
	w.proc = NewProcess(body, []Name{w.pi, pi2}, nil, LINEAR, zzPos())
	failed := vn.Try(func() { body.Transition(w.proc, w.re) })
	vn.Assert("C04.dup-no-failure", !failed)
	// immediately after the step: nothing was sent on either provider, nothing consumed
	vn.Assert("C04.dup-before-any-interaction", len(w.pi.Channel) == 0 && len(pi2.Channel) == 0 && (kind != 1 || len(u.Channel) == 1))
	if kind != 0 {
		return
	}
	vn.Drain()
	take := func(c chan Message) (Message, bool) {
		select {
		case m := <-c:
			return m, true
		default:
			return Message{}, false
		}
	}
	m1, ok1 := take(w.pi.Channel)
	m2, ok2 := take(pi2.Channel)
	f1, okf1 := take(u.Channel)
	f2, okf2 := take(v.Channel)
	all := ok1 && ok2 && okf1 && okf2 && m1.Rule == SND && m2.Rule == SND && f1.Rule == FWD && f2.Rule == FWD && len(f1.Providers) == 2 && len(f2.Providers) == 2
	vn.Assert("C04.dup-copies-and-forwards", all)
	if all {
		cs := []chan Message{m1.Channel1.Channel, m2.Channel1.Channel, m1.Channel2.Channel, m2.Channel2.Channel}
		fresh := true
		for i, c := range cs {
			fresh = fresh && c != nil && c != u.Channel && c != v.Channel && c != w.pi.Channel && c != pi2.Channel
			for j := 0; j < i; j++ {
				fresh = fresh && cs[j] != c
			}
		}
		vn.Assert("C04.dup-fresh-channels", fresh)
		wired := f1.Providers[0].Channel == m1.Channel1.Channel && f1.Providers[1].Channel == m2.Channel1.Channel &&
			f2.Providers[0].Channel == m1.Channel2.Channel && f2.Providers[1].Channel == m2.Channel2.Channel
		vn.Assert("C04.dup-forwards-provide-the-copies", wired)
	}
}

func init() { vn.Register("process.ZZC04Dup", ZZC04Dup) }

// ZZC13Counters (C13, condition 1): steps that Grits runs on different goroutines touch the
// shared debug counters of one RuntimeEnvironment only through sync/atomic.
func ZZC13Counters() {
	w := zzNewStepWorld(NORMAL_ASYNC)
	vn.Watch(&w.re.processCount)
	vn.Watch(&w.re.deadProcessCount)
	vn.Watch(&w.re.debugChannelCounter)
	step := func(k int) func() {
		p := NewProcess(&zzTProbe{}, []Name{w.pi}, nil, LINEAR, zzPos())
		switch k {
		case 0:
			return func() { w.re.CreateFreshChannel("c") }
		case 1:
			return func() { p.SpawnThenTransition(w.re) }
		case 2:
			return func() { p.terminate(w.re) }
		case 3:
			return func() { _ = w.re.ProcessCount() }
		default:
			return func() { _ = w.re.DeadProcessCount() }
		}
	}
	a, b := vn.Pick(5), vn.Pick(5)
	vn.Par(step(a), step(b))
	vn.Assert("C13.shared-counters-accessed-atomically", vn.RaceFree())
	vn.Drain()
}

func init() { vn.Register("process.ZZC13Counters", ZZC13Counters) }

// ZZC13CallCopies (C13, condition 2 / C04 call step): a call works on a private copy of the
// function body; the definition shared by all callers is never mutated, and the copy has the
// arguments substituted for the parameters (and `self` for an explicit provider).
func ZZC13CallCopies() {
	w := zzNewStepWorld(NORMAL_ASYNC)
	explicit := vn.Pick(2) == 1
	withSelf := vn.Pick(2) == 1
	p := Name{Ident: "p"}
	inner := NewClose(Name{IsSelf: true})
	body := NewWait(p, inner)
	fd := FunctionDefinition{FunctionName: "f", Parameters: []Name{p}, Body: body}
	if explicit {
		fd.UsesExplicitProvider = true
		fd.ExplicitProvider = Name{Ident: "me", IsSelf: true}
	}
	*w.re.GlobalEnvironment.FunctionDefinitions = append(*w.re.GlobalEnvironment.FunctionDefinitions, fd)
	args := []Name{w.ch[0]}
	if withSelf {
		args = []Name{{IsSelf: true}, w.ch[0]}
	}
	call := NewCall("f", args)
	proc := NewProcess(call, []Name{w.pi}, nil, LINEAR, zzPos())
	go call.Transition(proc, w.re)
	vn.Drain() // the called body now waits on its argument
	got, isWait := proc.Body.(*WaitForm)
	vn.Assert("C04.step-call-becomes-body", isWait && got != body)
	if isWait {
		vn.Assert("C04.step-call-substitutes-arguments", got.to_c.Channel == w.ch[0].Channel)
		vn.Assert("C13.call-copies-function-body", got != body && got.continuation_e != Form(inner) && body.to_c.Channel == nil && body.to_c.Ident == "p")
	}
}

func init() { vn.Register("process.ZZC13CallCopies", ZZC13CallCopies) }

// ZZC04Forward: forwards, split and drop steps.
//  * a positive forward re-emits exactly the message it received (rule, both channels, label)
//  * a negative forward asks its client to continue on the forward's providers (FWD request)
//  * split creates two fresh channels, hands them to the continuation and spawns a forward that
//    provides exactly these two channels from the split channel
//  * drop spawns a droppable forward (GC request to a negative client) and continues
func ZZC04Forward() {
	w := zzNewStepWorld(NORMAL_ASYNC)
	self := Name{IsSelf: true}
	pos, neg := types.POSITIVE, types.NEGATIVE
	kind := vn.Pick(4)
	q := &zzTProbe{}
	u := w.ch[0]
	take := func(c chan Message) (Message, bool) {
		select {
		case m := <-c:
			return m, true
		default:
			return Message{}, false
		}
	}
	switch kind {
	case 0: // positive forward relays
		u.ExplicitPolarity = &pos
		rule := []Rule{SND, CLS, SEL, CST}[vn.Pick(4)]
		lab := vn.StrOf(vn.Int(0, 2), "l", "m", "n")
		in := Message{Rule: rule, Channel1: w.ch[1], Channel2: w.ch[2], Label: Label{L: lab}}
		u.Channel <- in
		body := NewForward(self, u)
		proc := NewProcess(body, []Name{w.pi}, nil, LINEAR, zzPos())
		failed := vn.Try(func() { body.Transition(proc, w.re) })
		vn.Drain()
		out, ok := take(w.pi.Channel)
		same := ok && out.Rule == rule
		if same && (rule == SND || rule == SEL || rule == CST) {
			same = out.Channel1.Channel == w.ch[1].Channel
		}
		if same && rule == SND {
			same = out.Channel2.Channel == w.ch[2].Channel
		}
		okLabel := true
		if same && rule == SEL {
			okLabel = vn.EqS(out.Label.L, lab)
		}
		vn.Assert("C04.positive-forward-relays-the-message", vn.And(!failed && same, okLabel))
		_, leftover := take(u.Channel)
		vn.Assert("C04.positive-forward-consumes-once", !leftover)
	case 1: // negative forward
		u.ExplicitPolarity = &neg
		body := NewForward(self, u)
		proc := NewProcess(body, []Name{w.pi}, nil, LINEAR, zzPos())
		failed := vn.Try(func() { body.Transition(proc, w.re) })
		out, ok := take(u.Channel)
		vn.Assert("C04.negative-forward-requests-handover", !failed && ok && out.Rule == FWD && len(out.Providers) == 1 && out.Providers[0].Channel == w.pi.Channel)
		_, sent := take(w.pi.Channel)
		vn.Assert("C04.negative-forward-sends-nothing-on-self", !sent)
	case 2: // split
		u.ExplicitPolarity = &neg
		body := NewSplit(Name{Ident: "a"}, Name{Ident: "b"}, u, q)
		proc := NewProcess(body, []Name{w.pi}, nil, LINEAR, zzPos())
		failed := vn.Try(func() { body.Transition(proc, w.re) })
		vn.Drain()
		ok := !failed && q.ran == 1 && len(q.substs) == 2 && q.substs[0][0].Ident == "a" && q.substs[1][0].Ident == "b"
		vn.Assert("C04.split-continues-with-two-new-names", ok)
		if ok {
			c1, c2 := q.substs[0][1].Channel, q.substs[1][1].Channel
			fresh := c1 != nil && c2 != nil && c1 != c2 && c1 != u.Channel && c2 != u.Channel && c1 != w.pi.Channel && c2 != w.pi.Channel
			vn.Assert("C04.split-channels-fresh", fresh)
			req, got := take(u.Channel)
			vn.Assert("C04.split-forward-provides-both", got && req.Rule == FWD && len(req.Providers) == 2 && req.Providers[0].Channel == c1 && req.Providers[1].Channel == c2)
		}
	default: // drop
		u.ExplicitPolarity = &neg
		body := NewDrop(u, q)
		proc := NewProcess(body, []Name{w.pi}, nil, LINEAR, zzPos())
		failed := vn.Try(func() { body.Transition(proc, w.re) })
		vn.Drain()
		req, got := take(u.Channel)
		vn.Assert("C04.drop-continues-and-requests-collection", !failed && q.ran == 1 && len(q.substs) == 0 && got && req.Rule == GC)
	}
}

func init() { vn.Register("process.ZZC04Forward", ZZC04Forward) }

// ZZC04Control: control messages at a receiving process, and droppable forwards.
//  * GC at a receiver: the drop is extended to EVERY channel the dropped process still holds (one
//    droppable forward per free channel — by channel identity, whatever the channels are called),
//    nothing is sent on its provider, the process terminates;
//  * FWD(ρ) at a receiver: it continues, with the same body, as the provider of ρ;
//  * a positive droppable forward consumes the message it was waiting for and extends the drop to
//    every channel inside it.
func ZZC04Control() {
	w := zzNewStepWorld(NORMAL_ASYNC)
	self := Name{IsSelf: true}
	neg := types.NEGATIVE
	pos := types.POSITIVE
	ids := []string{"a", "b", "c"}
	take := func(c chan Message) (Message, bool) {
		select {
		case m := <-c:
			return m, true
		default:
			return Message{}, false
		}
	}
	// two held channels with symbolic spellings (possibly the same spelling)
	u, v := w.ch[0], w.ch[1]
	u.Ident = vn.StrOf(vn.Int(0, 2), ids...)
	v.Ident = vn.StrOf(vn.Int(0, 2), ids...)
	u.ExplicitPolarity, v.ExplicitPolarity = &neg, &neg
	kind := vn.Pick(3)
	switch kind {
	case 0: // GC at a receiver
		q := NewSend(self, u, v)
		var body Form
		switch vn.Pick(3) {
		case 0:
			body = NewReceive(Name{Ident: "x"}, Name{Ident: "y"}, self, NewWait(Name{Ident: "x"}, q))
		case 1:
			body = NewCase(self, []*BranchForm{NewBranch(Label{L: "l"}, Name{Ident: "x"}, q)})
		default:
			body = NewShift(Name{Ident: "x"}, self, q)
		}
		proc := NewProcess(body, []Name{w.pi}, nil, LINEAR, zzPos())
		w.pi.Channel <- Message{Rule: GC}
		failed := vn.Try(func() { body.Transition(proc, w.re) })
		vn.Drain()
		m1, ok1 := take(u.Channel)
		m2, ok2 := take(v.Channel)
		_, more1 := take(u.Channel)
		_, more2 := take(v.Channel)
		_, onSelf := take(w.pi.Channel)
		all := !failed && ok1 && ok2 && m1.Rule == GC && m2.Rule == GC && !more1 && !more2 && !onSelf
		vn.Assert("C04.gc-request-extends-to-every-held-channel", all)
		vn.Assert("C02.drop-reaches-every-channel-the-dropped-process-holds", all)
	case 1: // FWD at a receiver
		q := &zzTProbe{}
		body := NewReceive(Name{Ident: "x"}, Name{Ident: "y"}, self, q)
		proc := NewProcess(body, []Name{w.pi}, nil, LINEAR, zzPos())
		np := w.re.CreateFreshChannel("np")
		w.pi.Channel <- Message{Rule: FWD, Providers: []Name{np}}
		np.Channel <- Message{Rule: RCV, Channel1: u, Channel2: v}
		failed := vn.Try(func() { body.Transition(proc, w.re) })
		vn.Drain()
		ok := !failed && q.ran == 1 && len(q.provs) == 1 && q.provs[0].Channel == v.Channel && len(q.substs) == 2 && q.substs[0][1].Channel == u.Channel
		vn.Assert("C04.forward-request-moves-the-receiver-to-the-new-provider", ok)
	default: // positive droppable forward
		c := w.ch[2]
		c.ExplicitPolarity = &pos
		rule := []Rule{SND, SEL, CST, CLS}[vn.Pick(4)]
		in := Message{Rule: rule, Label: Label{L: "l"}}
		if rule != CLS {
			in.Channel1 = u
		}
		if rule == SND { // only the pair message carries two channels
			in.Channel2 = v
		}
		c.Channel <- in
		body := NewDroppableForward(Name{IsSelf: true, Ident: c.Ident, ExplicitPolarity: &pos}, c)
		proc := NewProcess(body, []Name{w.pi}, nil, LINEAR, zzPos())
		failed := vn.Try(func() { body.Transition(proc, w.re) })
		vn.Drain()
		_, left := take(c.Channel)
		m1, ok1 := take(u.Channel)
		m2, ok2 := take(v.Channel)
		_, onSelf := take(w.pi.Channel)
		wantU := rule != CLS
		wantV := rule == SND
		okU := (wantU && ok1 && m1.Rule == GC) || (!wantU && !ok1)
		okV := (wantV && ok2 && m2.Rule == GC) || (!wantV && !ok2)
		all := !failed && !left && okU && okV && !onSelf
		vn.Assert("C04.droppable-forward-drops-the-message-and-its-channels", all)
		vn.Assert("C02.dropping-a-message-reaches-the-channels-inside-it", all)
	}
}

func init() { vn.Register("process.ZZC04Control", ZZC04Control) }
