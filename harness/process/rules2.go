package process

// Call, cut, and declaration-level judgements.

import (
	"grits/types"

	vn "grits/zzvn"
)

// zzSig installs one function f with np parameters (types of depth 0 over the environment) and a
// probe body into sigma, the way Typecheck builds it.
type zzSig struct {
	np     int
	params []*types.ZZNode
	ret    *types.ZZNode
	body   *zzProbe
}

func (c *zzCtx) addFunction(name string) *zzSig {
	s := &zzSig{np: vn.Pick(vn.Param("NP", 1) + 1)}
	var ps []Name
	pn := []string{"p", "q"}
	for i := 0; i < s.np; i++ {
		n := types.ZZGenNode(0, vn.Int(0, 3), c.env.Modes)
		s.params = append(s.params, n)
		ps = append(ps, Name{Ident: pn[i], Type: n.T})
	}
	s.ret = types.ZZGenNode(vn.Param("RD", 0), vn.Int(0, 3), c.env.Modes)
	s.body = c.probe(true)
	*c.genv.FunctionDefinitions = append(*c.genv.FunctionDefinitions, FunctionDefinition{FunctionName: name, Parameters: ps, Type: s.ret.T, Body: s.body})
	c.sigma = produceFunctionDefinitionsEnvironment(*c.genv.FunctionDefinitions, c.env.Env)
	return s
}

// argsOK: the argument names are distinct members of Γ whose types equal the parameter types.
func (c *zzCtx) argsOK(args []zzN, params []*types.ZZNode) bool {
	ok := true
	for i, a := range args {
		ok = vn.And(ok, vn.And(c.inG(a), c.env.EqualNodes(c.typeG(a), params[i])))
		for j := 0; j < i; j++ {
			ok = vn.And(ok, args[j].idx != a.idx)
		}
	}
	return ok
}

// ---- f(ū) / f(π, ū) ----
func ZZRuleCall() {
	c := zzNewCtx()
	sig := c.addFunction("f")
	na := vn.Pick(vn.Param("NA", 2) + 2)
	var args []zzN
	var names []Name
	for i := 0; i < na; i++ {
		a := c.genName()
		args = append(args, a)
		names = append(names, a.name())
	}
	known := vn.Bool()
	fname := vn.IteS(known, "f", "g")
	acc, pan := c.run(NewCall(fname, names))
	zzNoPanic(pan)
	retOK := c.env.EqualNodes(c.prov, sig.ret)
	var prem bool
	consumed := 0
	switch {
	case na == sig.np:
		prem = vn.And(retOK, c.argsOK(args, sig.params))
		consumed = na
	case na == sig.np+1:
		prem = vn.And(vn.And(c.isProv(args[0]), retOK), c.argsOK(args[1:], sig.params))
		consumed = na - 1
	default:
		prem = false
	}
	prem = vn.And(vn.And(known, prem), c.g == consumed)
	zzVerdict(acc, prem, true)
	if acc {
		vn.Assert("C05.axiom-leaves-nothing", c.g == consumed)
	}
}

// ---- x [: A] <- new B; Q ----
// The new name may re-use a live identifier: then the spawned body must take that channel (it is
// consumed by the body) and x is bound afresh for the continuation.
func ZZRuleCut() {
	c := zzNewCtx()
	x := c.genName()
	vn.Assume(vn.Not(x.self))
	if c.hasShadow {
		// a new channel called like the current provider could never be used: outside the claim
		vn.Assume(x.idx != c.shadowIdx)
	}
	q := c.probe(vn.Bool())
	kind := vn.Pick(3)
	hasAnn := vn.Pick(2) == 1
	A := types.ZZGenNode(vn.Param("AD", 0), vn.Int(0, 3), c.env.Modes)
	nx := x.name()
	if hasAnn {
		nx.Type = A.T
	}
	// inside the spawned body the provider is `self` or the new name
	provB := func(n zzN) bool { return vn.Or(n.self, n.idx == x.idx) }
	var body Form
	var names []zzN // every name the body mentions, in order
	var bodyPrem bool
	var chanT *types.ZZNode // type of the new channel
	switch kind {
	case 0: // fwd n u
		n, u := c.genName(), c.genName()
		body = NewForward(n.name(), u.name())
		names = []zzN{n, u}
		chanT = A
		// Γ₁ must be exactly {u}: n is written `self`
		bodyPrem = vn.And(vn.And(hasAnn, n.self), vn.And(vn.And(vn.Not(provB(u)), c.inG(u)), c.env.EqualNodes(A, c.typeG(u))))
	case 1: // close n
		n := c.genName()
		body = NewClose(n.name())
		names = []zzN{n}
		chanT = A
		bodyPrem = vn.And(vn.And(hasAnn, n.self), zzHead(c.env.Unf(A), types.ZZUnit))
	default: // f(ū)
		sig := c.addFunction("f")
		var args []Name
		for i := 0; i < sig.np; i++ {
			a := c.genName()
			names = append(names, a)
			args = append(args, a.name())
		}
		body = NewCall("f", args)
		chanT = sig.ret
		bodyPrem = c.argsOK(names, sig.params)
	}
	acc, pan := c.run(NewNew(nx, body, q))
	zzNoPanic(pan)
	// Γ₁ = the non-self names the body mentions: members of Γ, pairwise distinct
	var mentioned []zzN
	split := true
	indep := true
	for i, u := range names {
		ns := vn.Not(u.self)
		split = vn.And(split, vn.Or(u.self, c.inG(u)))
		for j := 0; j < i; j++ {
			split = vn.And(split, vn.Or(vn.Or(u.self, names[j].self), names[j].idx != u.idx))
		}
		indep = vn.And(indep, vn.Or(u.self, types.ZZRefDown(c.typeG(u).Mode, chanT.Mode)))
		_ = ns
	}
	for _, u := range names {
		mentioned = append(mentioned, u)
	}
	// x is fresh for the continuation: not in Γ unless the body took it
	freshX := c.fresh(x, mentioned)
	indepProv := types.ZZRefDown(chanT.Mode, c.prov.Mode)
	prem := vn.And(vn.And(q.accept, vn.And(split, freshX)), vn.And(bodyPrem, vn.And(indep, indepProv)))
	zzVerdict(acc, prem, true)
	if acc {
		vn.Assert("C06.cut-body-context-at-least-channel-mode", indep)
		vn.Assert("C06.cut-channel-at-least-provider-mode", indepProv)
		vn.Assert("C05.cut-body-gets-exactly-its-names", vn.And(split, bodyPrem))
		vn.Assert("C05.binder-does-not-shadow", freshX)
	}
	if q.called > 0 && vn.Concretize(vn.B2I(vn.And(vn.And(split, freshX), bodyPrem)), 0, 1) == 1 {
		zzJudgement("C05.binder-judgement", c.gammaIs(q, mentioned, []zzBind{{x, chanT}}), c.shadowUnchanged(q), c.providerIs(q, c.prov))
	}
}

// ---- let f(z̄ : B̄) : C = F ----
func ZZDeclFunction() {
	c := zzNewCtx()
	nf := vn.Pick(2) + 1
	var sigs []*zzSig
	var nameIdx []int
	fn := []string{"f", "g"}
	dupParams := false
	for i := 0; i < nf; i++ {
		ni := vn.Int(0, 1)
		s := c.addFunction(vn.StrOf(ni, fn...))
		s.body.accept = vn.Bool()
		if s.np == 2 && vn.Pick(2) == 1 {
			// both parameters called alike
			fd := &(*c.genv.FunctionDefinitions)[i]
			fd.Parameters[1].Ident = fd.Parameters[0].Ident
			dupParams = true
		}
		sigs = append(sigs, s)
		nameIdx = append(nameIdx, ni)
	}
	var err error
	pan := vn.Try(func() {
		err = preliminaryFunctionDefinitionsChecks(c.genv)
		if err == nil {
			err = typecheckFunctionDefinitions(c.genv)
		}
	})
	zzNoPanic(pan)
	acc := err == nil
	dupNames := nf == 2 && vn.Concretize(vn.B2I(nameIdx[0] == nameIdx[1]), 0, 1) == 1
	prem := !dupNames && !dupParams
	indep := true
	for _, s := range sigs {
		for _, p := range s.params {
			indep = vn.And(indep, types.ZZRefDown(p.Mode, s.ret.Mode))
		}
		prem = vn.And(prem, s.body.accept)
	}
	prem = vn.And(prem, indep)
	zzVerdict(acc, prem, true)
	if acc {
		vn.Assert("C06.function-parameters-at-least-provider-mode", indep)
	}
	for i, s := range sigs {
		if s.body.called > 0 && !dupNames && !dupParams {
			fd := (*c.genv.FunctionDefinitions)[i]
			ok := vn.And(len(s.body.gamma) == s.np, vn.And(s.body.shadow == nil, types.EqualType(s.body.provider, s.ret.T, c.env.Env)))
			for j, p := range fd.Parameters {
				nt, has := s.body.gamma[p.Ident]
				ok = vn.And(ok, has && nt.Type == s.params[j].T)
			}
			vn.Assert("C05.function-body-judgement", ok)
		}
	}
}

// ---- prc[ā] : C = F ----
func ZZDeclProcess() {
	c := zzNewCtx()
	pn := []string{"m", "n", "o"}
	// process 0 may depend on process 1
	uses := vn.Pick(2) == 1
	two0 := vn.Pick(2) == 1
	t0 := types.ZZGenNode(vn.Param("D", 1), vn.Int(0, 3), c.env.Modes)
	t1 := types.ZZGenNode(0, vn.Int(0, 3), c.env.Modes)
	i0, i1 := vn.Int(0, 2), vn.Int(0, 2)
	q0, q1 := c.probe(vn.Bool()), c.probe(vn.Bool())
	n1 := Name{Ident: vn.StrOf(i1, pn...)}
	if uses {
		q0.free = []Name{n1}
	}
	prov0 := []Name{{Ident: vn.StrOf(i0, pn...)}}
	if two0 {
		prov0 = append(prov0, Name{Ident: "z"})
	}
	p0 := NewProcess(q0, prov0, t0.T, LINEAR, c.pos())
	p1 := NewProcess(q1, []Name{n1}, t1.T, LINEAR, c.pos())
	procs := []*Process{p0, p1}
	var err error
	pan := vn.Try(func() {
		assignTypesToProcessProviders(procs)
		err = preliminaryProcessesChecks(procs, nil, c.genv)
		if err == nil {
			err = typecheckProcesses(procs, nil, c.genv)
		}
	})
	zzNoPanic(pan)
	acc := err == nil
	unique := i0 != i1
	indep := true
	if uses {
		indep = types.ZZRefDown(t1.Mode, t0.Mode)
	}
	contract := true
	if two0 {
		contract = types.ZZRefContract(t0.Mode)
	}
	prem := vn.And(vn.And(q0.accept, q1.accept), vn.And(unique, vn.And(indep, contract)))
	// K1: no independence check for prc declarations (acknowledged todo in the source)
	vn.Known("K1", vn.Not(indep))
	// F13: a process declared under several provider names is duplicated without a contraction check
	vn.Known("F13", vn.Not(contract))
	zzVerdict(acc, prem, true)
	if acc {
		vn.Assert("C06.process-free-names-at-least-provider-mode", indep)
		vn.Assert("C05.multi-provider-needs-contraction", contract)
	}
	if q0.called > 0 {
		ok := vn.And(q0.shadow == nil, types.EqualType(q0.provider, t0.T, c.env.Env))
		if uses {
			nt, has := q0.gamma[n1.Ident]
			ok = vn.And(ok, vn.And(len(q0.gamma) == 1, has && nt.Type == t1.T))
		} else {
			ok = vn.And(ok, len(q0.gamma) == 0)
		}
		vn.Assert("C05.process-body-judgement", ok)
	}
}

func init() {
	vn.Register("process.ZZRuleCall", ZZRuleCall)
	vn.Register("process.ZZRuleCut", ZZRuleCut)
	vn.Register("process.ZZDeclFunction", ZZDeclFunction)
	vn.Register("process.ZZDeclProcess", ZZDeclProcess)
}
