package process

// One harness per typing rule family. Assertion ids carry the property they serve:
//   C07.*  accept ⇔ declarative premise        C05.*  context accounting
//   C06.*  mode independence / shift legality   C09.*  no internal panic
// Reference premises: DESIGN.md Appendix A.

import (
	"grits/types"

	vn "grits/zzvn"
)

// verdict asserts both directions; frag restricts the complete direction to the documented fragment.
func zzVerdict(acc bool, prem bool, frag bool) {
	if acc {
		vn.Assert("C07.accept-implies-premises", prem)
	} else {
		vn.Assert("C07.premises-imply-accept", vn.Not(vn.And(prem, frag)))
	}
}

// zzJudgement: the judgement handed to a continuation is the reference one, part by part.
func zzJudgement(id string, ctx, provName, provType bool) {
	switch id {
	case "C05.binder-judgement":
		vn.Assert("C05.binder-judgement.context", ctx)
		vn.Assert("C05.binder-judgement.provider-name", provName)
		vn.Assert("C05.binder-judgement.provider-type", provType)
	case "C05.branch-judgement":
		vn.Assert("C05.branch-judgement.context", ctx)
		vn.Assert("C05.branch-judgement.provider-name", provName)
		vn.Assert("C05.branch-judgement.provider-type", provType)
	default:
		vn.Assert("C05.continuation-judgement.context", ctx)
		vn.Assert("C05.continuation-judgement.provider-name", provName)
		vn.Assert("C05.continuation-judgement.provider-type", provType)
	}
}

func zzNoPanic(p bool) { vn.Assert("C09.rule-no-panic", vn.Not(p)) }

func zzHead(n *types.ZZNode, shapes ...int) bool {
	r := false
	for _, s := range shapes {
		r = vn.Or(r, n.Sel == s)
	}
	return r
}

// ---- send w<u,v> : ⊗R / ⊸L ----
func ZZRuleSend() {
	c := zzNewCtx()
	to, pay, cont := c.genName(), c.genName(), c.genName()
	acc, pan := c.run(NewSend(to.name(), pay.name(), cont.name()))
	zzNoPanic(pan)
	P := c.env.Unf(c.prov)
	two := c.g == 2
	mulR := vn.And(vn.And(zzHead(P, types.ZZSend), vn.And(c.inG(pay), c.inG(cont))),
		vn.And(pay.idx != cont.idx, vn.And(c.env.EqualNodes(P.A, c.typeG(pay)), c.env.EqualNodes(P.B, c.typeG(cont)))))
	W := c.env.Unf(c.typeG(to))
	impL := vn.And(vn.And(c.inG(to), zzHead(W, types.ZZRecv)),
		vn.And(vn.And(c.inG(pay), pay.idx != to.idx), vn.And(c.env.EqualNodes(W.A, c.typeG(pay)), c.env.EqualNodes(W.B, c.prov))))
	prem := vn.And(two, vn.Or(vn.And(c.isProv(to), mulR), vn.And(vn.And(vn.Not(c.isProv(to)), c.isProv(cont)), impL)))
	zzVerdict(acc, prem, true)
	if acc {
		vn.Assert("C05.axiom-leaves-nothing", two)
	}
}

// ---- <x,y> <- recv w; Q : ⊸R / ⊗L ----
func ZZRuleReceive() {
	c := zzNewCtx()
	x, y, w := c.genName(), c.genName(), c.genName()
	vn.Assume(vn.And(vn.Not(x.self), vn.Not(y.self))) // binders written `self` are outside the claim
	q := c.probe(vn.Bool())
	acc, pan := c.run(NewReceive(x.name(), y.name(), w.name(), q))
	zzNoPanic(pan)
	P := c.env.Unf(c.prov)
	distinct := x.idx != y.idx
	impR := vn.And(zzHead(P, types.ZZRecv), vn.And(distinct, vn.And(vn.Not(c.identInG(x.idx)), vn.Not(c.identInG(y.idx)))))
	W := c.env.Unf(c.typeG(w))
	freshL := vn.And(c.fresh(x, []zzN{w}, y), c.fresh(y, []zzN{w}))
	mulL := vn.And(vn.And(c.inG(w), zzHead(W, types.ZZSend)), freshL)
	isR := c.isProv(w)
	prem := vn.And(q.accept, vn.Or(vn.And(isR, impR), vn.And(vn.Not(isR), mulL)))
	zzVerdict(acc, prem, true)
	if q.called > 0 {
		if vn.Concretize(vn.B2I(isR), 0, 1) == 1 {
			zzJudgement("C05.binder-judgement", c.gammaIs(q, nil, []zzBind{{x, P.A}}), c.shadowIs(q, y), c.providerIs(q, P.B))
		} else {
			zzJudgement("C05.binder-judgement", c.gammaIs(q, []zzN{w}, []zzBind{{x, W.A}, {y, W.B}}), c.shadowUnchanged(q), c.providerIs(q, c.prov))
			vn.Assert("C05.binder-does-not-shadow", freshL)
		}
	}
}

// ---- w.l<u> : ⊕R / &L ----
func ZZRuleSelect() {
	c := zzNewCtx()
	to, cont := c.genName(), c.genName()
	l := vn.Int(0, len(types.ZZLabels)-1)
	acc, pan := c.run(NewSelect(to.name(), Label{L: types.ZZLabelName(l)}, cont.name()))
	zzNoPanic(pan)
	P := c.env.Unf(c.prov)
	one := c.g == 1
	// branch selected by label l in a choice node n: its type node (A if first label, B if second)
	pick := func(n *types.ZZNode, two bool) (*types.ZZNode, bool) {
		if n.A == nil {
			return n, false
		}
		has := vn.Or(n.Lab0 == l, vn.And(two, n.Lab1 == l))
		return types.ZZMerge(vn.And(two, vn.And(n.Lab1 == l, n.Lab0 != l)), n.B, n.A), has
	}
	brP, hasP := pick(P, P.Sel == types.ZZSel2)
	plusR := vn.And(vn.And(zzHead(P, types.ZZSel1, types.ZZSel2), hasP), vn.And(c.inG(cont), c.env.EqualNodes(brP, c.typeG(cont))))
	W := c.env.Unf(c.typeG(to))
	brW, hasW := pick(W, W.Sel == types.ZZBra2)
	withL := vn.And(vn.And(c.inG(to), zzHead(W, types.ZZBra1, types.ZZBra2)), vn.And(hasW, c.env.EqualNodes(brW, c.prov)))
	prem := vn.And(one, vn.Or(vn.And(c.isProv(to), plusR), vn.And(vn.And(vn.Not(c.isProv(to)), c.isProv(cont)), withL)))
	zzVerdict(acc, prem, true)
	if acc {
		vn.Assert("C05.axiom-leaves-nothing", one)
	}
}

// ---- case w ( l0<x0> => Q0 [| l1<x1> => Q1] ) : &R / ⊕L ----
func ZZRuleCase() {
	c := zzNewCtx()
	w := c.genName()
	nb := vn.Pick(2) + 1
	var labs []int
	var xs []zzN
	var qs []*zzProbe
	var brs []*BranchForm
	for i := 0; i < nb; i++ {
		l := vn.Int(0, len(types.ZZLabels)-1)
		x := c.genName()
		vn.Assume(vn.Not(x.self))
		if c.hasShadow {
			// a payload called like the current provider could never be used as a client:
			// unobservable at program level, outside the claim
			vn.Assume(x.idx != c.shadowIdx)
		}
		q := c.probe(vn.Bool())
		labs, xs, qs = append(labs, l), append(xs, x), append(qs, q)
		brs = append(brs, NewBranch(Label{L: types.ZZLabelName(l)}, x.name(), q))
	}
	acc, pan := c.run(NewCase(w.name(), brs))
	zzNoPanic(pan)
	isR := c.isProv(w)
	P := c.env.Unf(c.prov)
	W := c.env.Unf(c.typeG(w))
	T := types.ZZMerge(isR, P, W)
	two := vn.Or(T.Sel == types.ZZSel2, T.Sel == types.ZZBra2)
	// labels of the form are pairwise distinct and exactly the labels of the type
	var cover bool
	if nb == 1 {
		cover = vn.And(vn.Not(two), labs[0] == T.Lab0)
	} else {
		cover = vn.And(two, vn.Or(vn.And(labs[0] == T.Lab0, labs[1] == T.Lab1), vn.And(labs[0] == T.Lab1, labs[1] == T.Lab0)))
	}
	all := true
	for _, q := range qs {
		all = vn.And(all, q.accept)
	}
	// &R: the name under which the provider continues must be fresh w.r.t. Γ (it becomes the
	// provider in the whole branch; F21 was the missing check)
	freshR := true
	for _, x := range xs {
		freshR = vn.And(freshR, c.fresh(x, nil))
	}
	withR := vn.And(vn.And(zzHead(P, types.ZZBra1, types.ZZBra2), cover), freshR)
	freshL := true
	for _, x := range xs {
		freshL = vn.And(freshL, c.fresh(x, []zzN{w}))
	}
	plusL := vn.And(vn.And(c.inG(w), zzHead(W, types.ZZSel1, types.ZZSel2)), vn.And(cover, freshL))
	prem := vn.And(all, vn.Or(vn.And(isR, withR), vn.And(vn.Not(isR), plusL)))
	// F4: ⊕L writes the branch payload into the copied context without a freshness check
	vn.Known("F4", vn.And(vn.Not(isR), vn.Not(freshL)))
	zzVerdict(acc, prem, true)
	right := vn.Concretize(vn.B2I(isR), 0, 1) == 1
	for i, q := range qs {
		if q.called == 0 {
			continue
		}
		brT := types.ZZMerge(vn.And(two, labs[i] == T.Lab1), T.B, T.A)
		if right {
			zzJudgement("C05.branch-judgement", c.gammaIs(q, nil, nil), c.shadowIs(q, xs[i]), c.providerIs(q, brT))
		} else {
			zzJudgement("C05.branch-judgement", c.gammaIs(q, []zzN{w}, []zzBind{{xs[i], brT}}), c.shadowUnchanged(q), c.providerIs(q, c.prov))
			vn.Assert("C05.binder-does-not-shadow", c.fresh(xs[i], []zzN{w}))
		}
	}
	if len(qs) == 2 && qs[0].called > 0 && qs[1].called > 0 {
		// every branch gets its own copy of the context
		vn.Assert("C05.branches-do-not-share-context", vn.Not(zzSameMap(qs[0].gammaRef, qs[1].gammaRef)))
	}
}

// zzSameMap: a and b are the same map object (adding to one shows in the other).
func zzSameMap(a, b NamesTypesCtx) bool {
	n := len(b)
	a["\x00probe"] = NamesType{}
	same := len(b) == n+1
	delete(a, "\x00probe")
	return same
}

// ---- close w : 1R ----
func ZZRuleClose() {
	c := zzNewCtx()
	w := c.genName()
	acc, pan := c.run(NewClose(w.name()))
	zzNoPanic(pan)
	P := c.env.Unf(c.prov)
	prem := vn.And(vn.And(c.isProv(w), zzHead(P, types.ZZUnit)), c.g == 0)
	zzVerdict(acc, prem, true)
	if acc {
		vn.Assert("C05.axiom-leaves-nothing", c.g == 0)
	}
}

// ---- wait w; Q : 1L ----
func ZZRuleWait() {
	c := zzNewCtx()
	w := c.genName()
	q := c.probe(vn.Bool())
	acc, pan := c.run(NewWait(w.name(), q))
	zzNoPanic(pan)
	W := c.env.Unf(c.typeG(w))
	prem := vn.And(q.accept, vn.And(vn.Not(c.isProv(w)), vn.And(c.inG(w), zzHead(W, types.ZZUnit))))
	zzVerdict(acc, prem, true)
	if q.called > 0 {
		zzJudgement("C05.continuation-judgement", c.gammaIs(q, []zzN{w}, nil), c.shadowUnchanged(q), c.providerIs(q, c.prov))
	}
}

// polarity of a structural type node: positive for 1, ⊗, ⊕, ↓; negative for ⊸, &, ↑
func zzPositive(n *types.ZZNode) bool {
	return zzHead(n, types.ZZUnit, types.ZZSend, types.ZZSel1, types.ZZSel2, types.ZZDown)
}

// ---- fwd w u : id ----
func ZZRuleForward() {
	c := zzNewCtx()
	w, u := c.genName(), c.genName()
	acc, pan := c.run(NewForward(w.name(), u.name()))
	zzNoPanic(pan)
	prem := vn.And(vn.And(c.isProv(w), vn.Not(c.isProv(u))), vn.And(vn.And(c.inG(u), c.g == 1), c.env.EqualNodes(c.prov, c.typeG(u))))
	zzVerdict(acc, prem, true)
	if acc {
		vn.Assert("C05.axiom-leaves-nothing", c.g == 1)
	}
}

// ---- drop w; Q ----
func ZZRuleDrop() {
	c := zzNewCtx()
	w := c.genName()
	q := c.probe(vn.Bool())
	acc, pan := c.run(NewDrop(w.name(), q))
	zzNoPanic(pan)
	T := c.typeG(w)
	prem := vn.And(q.accept, vn.And(vn.Not(c.isProv(w)), vn.And(c.inG(w), types.ZZRefWeaken(T.Mode))))
	zzVerdict(acc, prem, true)
	if acc {
		vn.Assert("C05.drop-only-weakenable", types.ZZRefWeaken(T.Mode))
	}
	if q.called > 0 {
		zzJudgement("C05.continuation-judgement", c.gammaIs(q, []zzN{w}, nil), c.shadowUnchanged(q), c.providerIs(q, c.prov))
	}
}

// ---- <a,b> <- split w; Q ----
func ZZRuleSplit() {
	c := zzNewCtx()
	a, b, w := c.genName(), c.genName(), c.genName()
	vn.Assume(vn.And(vn.Not(a.self), vn.Not(b.self)))
	if c.hasShadow {
		// new names called like the provider could never be used as clients: unobservable, outside
		vn.Assume(vn.And(a.idx != c.shadowIdx, b.idx != c.shadowIdx))
	}
	q := c.probe(vn.Bool())
	acc, pan := c.run(NewSplit(a.name(), b.name(), w.name(), q))
	zzNoPanic(pan)
	T := c.typeG(w)
	fresh := vn.And(c.fresh(a, []zzN{w}, b), c.fresh(b, []zzN{w}))
	prem := vn.And(q.accept, vn.And(vn.And(vn.Not(c.isProv(w)), c.inG(w)), vn.And(types.ZZRefContract(T.Mode), fresh)))
	// the real rule does not compare the new names with the provider's name (they could never be
	// used as clients then); outside the complete direction
	zzVerdict(acc, prem, true)
	if acc {
		vn.Assert("C05.split-only-contractable", types.ZZRefContract(T.Mode))
	}
	if q.called > 0 {
		U := c.env.Unf(T)
		zzJudgement("C05.binder-judgement", c.gammaIs(q, []zzN{w}, []zzBind{{a, U}, {b, U}}), c.shadowUnchanged(q), c.providerIs(q, c.prov))
		vn.Assert("C05.binder-does-not-shadow", vn.And(c.fresh(a, []zzN{w}, b), c.fresh(b, []zzN{w})))
	}
}

// ---- cast w<u> : ↓R / ↑L ----
func ZZRuleCast() {
	c := zzNewCtx()
	to, cont := c.genName(), c.genName()
	acc, pan := c.run(NewCast(to.name(), cont.name()))
	zzNoPanic(pan)
	P := c.env.Unf(c.prov)
	one := c.g == 1
	U := c.env.Unf(c.typeG(cont))
	dnR := vn.And(vn.And(zzHead(P, types.ZZDown), types.ZZRefDown(P.From, P.Mode)),
		vn.And(c.inG(cont), vn.And(U.Mode == P.From, c.env.EqualNodes(P.C, c.typeG(cont)))))
	W := c.env.Unf(c.typeG(to))
	upL := vn.And(vn.And(c.inG(to), vn.And(zzHead(W, types.ZZUp), types.ZZRefDown(W.Mode, W.From))),
		vn.And(P.Mode == W.From, c.env.EqualNodes(W.C, c.prov)))
	prem := vn.And(one, vn.Or(vn.And(c.isProv(to), dnR), vn.And(vn.And(vn.Not(c.isProv(to)), c.isProv(cont)), upL)))
	zzVerdict(acc, prem, true)
	if acc {
		vn.Assert("C05.axiom-leaves-nothing", one)
		right := vn.Concretize(vn.B2I(c.isProv(to)), 0, 1) == 1
		if right {
			vn.Assert("C06.cast-across-legal-shift", vn.And(types.ZZRefDown(P.From, P.Mode), U.Mode == P.From))
		} else {
			vn.Assert("C06.cast-across-legal-shift", vn.And(types.ZZRefDown(W.Mode, W.From), P.Mode == W.From))
		}
	}
}

// ---- x <- shift w; Q : ↑R / ↓L ----
func ZZRuleShift() {
	c := zzNewCtx()
	x, w := c.genName(), c.genName()
	vn.Assume(vn.Not(x.self))
	q := c.probe(vn.Bool())
	acc, pan := c.run(NewShift(x.name(), w.name(), q))
	zzNoPanic(pan)
	P := c.env.Unf(c.prov)
	isR := c.isProv(w)
	upR := vn.And(vn.And(zzHead(P, types.ZZUp), types.ZZRefDown(P.Mode, P.From)), vn.Not(c.identInG(x.idx)))
	W := c.env.Unf(c.typeG(w))
	freshL := c.fresh(x, []zzN{w})
	dnL := vn.And(vn.And(c.inG(w), vn.And(zzHead(W, types.ZZDown), types.ZZRefDown(W.From, W.Mode))), freshL)
	prem := vn.And(q.accept, vn.Or(vn.And(isR, upR), vn.And(vn.Not(isR), dnL)))
	zzVerdict(acc, prem, true)
	if q.called > 0 {
		if vn.Concretize(vn.B2I(isR), 0, 1) == 1 {
			zzJudgement("C05.binder-judgement", c.gammaIs(q, nil, nil), c.shadowIs(q, x), c.providerIs(q, P.C))
			vn.Assert("C06.shift-across-legal-shift", types.ZZRefDown(P.Mode, P.From))
		} else {
			zzJudgement("C05.binder-judgement", c.gammaIs(q, []zzN{w}, []zzBind{{x, W.C}}), c.shadowUnchanged(q), c.providerIs(q, c.prov))
			vn.Assert("C05.binder-does-not-shadow", freshL)
			vn.Assert("C06.shift-across-legal-shift", types.ZZRefDown(W.From, W.Mode))
		}
	}
}

// ---- print l; Q ----
func ZZRulePrint() {
	c := zzNewCtx()
	q := c.probe(vn.Bool())
	acc, pan := c.run(NewPrint(Label{L: "l"}, q))
	zzNoPanic(pan)
	zzVerdict(acc, q.accept, true)
	if q.called > 0 {
		zzJudgement("C05.continuation-judgement", c.gammaIs(q, nil, nil), c.shadowUnchanged(q), c.providerIs(q, c.prov))
	}
}

func init() {
	vn.Register("process.ZZRuleSend", ZZRuleSend)
	vn.Register("process.ZZRuleReceive", ZZRuleReceive)
	vn.Register("process.ZZRuleSelect", ZZRuleSelect)
	vn.Register("process.ZZRuleCase", ZZRuleCase)
	vn.Register("process.ZZRuleClose", ZZRuleClose)
	vn.Register("process.ZZRuleWait", ZZRuleWait)
	vn.Register("process.ZZRuleForward", ZZRuleForward)
	vn.Register("process.ZZRuleDrop", ZZRuleDrop)
	vn.Register("process.ZZRuleSplit", ZZRuleSplit)
	vn.Register("process.ZZRuleCast", ZZRuleCast)
	vn.Register("process.ZZRuleShift", ZZRuleShift)
	vn.Register("process.ZZRulePrint", ZZRulePrint)
}
