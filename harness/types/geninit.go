package types

// Parser-shaped type definitions (SessionTypeInitial trees, exactly what the yacc actions build)
// and the reference well-formedness / mode inference of C10 and C16.

import vn "grits/zzvn"

const zzUnsetIdx = 4

type ZZINode struct {
	Kind int // concrete shape (zzUnit .. zzDown)
	Lab0 int
	Lab1 int
	Ref  int // label: name index 0..K (K+1 names, so a name may be undefined)
	From int // shifts
	To   int
	A, B *ZZINode
	T    SessionTypeInitial
}

type ZZIDef struct {
	NameIdx int // symbolic: which of the K+1 names this definition declares
	HasAnn  bool
	Ann     int // symbolic proper mode of the head annotation
	Body    *ZZINode
	Def     SessionTypeDefinition
}

type ZZIProg struct {
	K    int
	Defs []*ZZIDef
}

// zzGenINode generates one parser-shaped type of depth <= depth. Shapes are chosen concretely
// (the conversion inspects every node immediately), everything else is symbolic.
func zzGenINode(depth int, k int) *ZZINode {
	n := &ZZINode{}
	if depth == 0 || vn.Param("LEAN", 0) == 2 {
		// leaves; LEAN=2: every body is 1 or a bare name (alias chains and cycles only)
		n.Kind = vn.Pick(2)
	} else if vn.Param("LEAN", 0) == 3 {
		// unit, send, receive only (no aliases): mode propagation through three definitions
		n.Kind = []int{zzUnit, zzSend, zzRecv}[vn.Pick(3)]
	} else if vn.Param("LEAN", 0) == 1 {
		// lean menu (used for 3-name alias chains / cycles): unit, name, send
		n.Kind = vn.Pick(3)
	} else {
		n.Kind = vn.Pick(zzNShapes)
	}
	switch n.Kind {
	case zzUnit:
		n.T = NewUnitTypeInitial()
	case zzLabel:
		n.Ref = vn.Int(0, k)
		n.T = NewLabelTypeInitial(vn.StrOf(n.Ref, ZZTypeNames[:k+1]...))
	case zzSend:
		n.A, n.B = zzGenINode(depth-1, k), zzGenINode(depth-1, k)
		n.T = NewSendTypeInitial(n.A.T, n.B.T)
	case zzRecv:
		n.A, n.B = zzGenINode(depth-1, k), zzGenINode(depth-1, k)
		n.T = NewReceiveTypeInitial(n.A.T, n.B.T)
	case zzSel1, zzBra1:
		n.Lab0 = vn.Int(0, len(ZZLabels)-1)
		n.A = zzGenINode(depth-1, k)
		opts := []OptionInitial{*NewOptionInitial(zzLabelName(n.Lab0), n.A.T)}
		if n.Kind == zzSel1 {
			n.T = NewSelectLabelTypeInitial(opts)
		} else {
			n.T = NewBranchCaseTypeInitial(opts)
		}
	case zzSel2, zzBra2:
		n.Lab0 = vn.Int(0, len(ZZLabels)-1)
		n.Lab1 = vn.Int(0, len(ZZLabels)-1)
		n.A, n.B = zzGenINode(depth-1, k), zzGenINode(depth-1, k)
		// the grammar action builds the list as append([first], rest...)
		opts := append([]OptionInitial{*NewOptionInitial(zzLabelName(n.Lab0), n.A.T)}, []OptionInitial{*NewOptionInitial(zzLabelName(n.Lab1), n.B.T)}...)
		if n.Kind == zzSel2 {
			n.T = NewSelectLabelTypeInitial(opts)
		} else {
			n.T = NewBranchCaseTypeInitial(opts)
		}
	case zzUp, zzDown:
		n.From, n.To = vn.Int(0, 3), vn.Int(0, 3)
		n.A = zzGenINode(depth-1, k)
		if n.Kind == zzUp {
			n.T = NewUpTypeInitial(zzMode(n.From, 4), zzMode(n.To, 4), n.A.T)
		} else {
			n.T = NewDownTypeInitial(zzMode(n.From, 4), zzMode(n.To, 4), n.A.T)
		}
	}
	return n
}

// ZZGenIProg generates K definitions (names possibly duplicated / undefined, optional head mode).
func ZZGenIProg(k int, depth int) *ZZIProg {
	p := &ZZIProg{K: k}
	for i := 0; i < k; i++ {
		d := &ZZIDef{}
		if vn.Param("FIXNAMES", 0) == 1 {
			// definition i is called Ti (no duplicate definitions); references may still be undefined
			d.NameIdx = vn.Int(i, i)
		} else {
			d.NameIdx = vn.Int(0, k)
		}
		if vn.Param("LEAN", 0) != 2 {
			d.HasAnn = vn.Pick(2) == 1
		}
		d.Body = zzGenINode(depth, k)
		var st SessionType
		if d.HasAnn {
			d.Ann = vn.Int(0, 3)
			// grammar action: StringToMode(word), then NewExplicitModeTypeInitial(mode, init)
			st = ConvertSessionTypeInitialToSessionType(NewExplicitModeTypeInitial(zzMode(d.Ann, 4), d.Body.T))
		} else {
			st = ConvertSessionTypeInitialToSessionType(d.Body.T)
		}
		d.Def = SessionTypeDefinition{Name: vn.StrOf(d.NameIdx, ZZTypeNames[:k+1]...), SessionType: st}
		p.Defs = append(p.Defs, d)
	}
	return p
}

func (p *ZZIProg) RealDefs() []SessionTypeDefinition {
	var out []SessionTypeDefinition
	for _, d := range p.Defs {
		out = append(out, d.Def)
	}
	return out
}

// ---------- reference well-formedness ----------

// walk calls f on every node with the (symbolic) mode its context demands; ctx = zzUnsetIdx means
// "the region's mode is not fixed from above" (root of an unannotated definition).
func (n *ZZINode) each(f func(*ZZINode)) {
	if n == nil {
		return
	}
	f(n)
	n.A.each(f)
	n.B.each(f)
}

func (p *ZZIProg) dupNames() bool {
	r := false
	for i := range p.Defs {
		for j := i + 1; j < len(p.Defs); j++ {
			r = vn.Or(r, p.Defs[i].NameIdx == p.Defs[j].NameIdx)
		}
	}
	return r
}

func (p *ZZIProg) defined(ref int) bool {
	r := false
	for _, d := range p.Defs {
		r = vn.Or(r, d.NameIdx == ref)
	}
	return r
}

func (p *ZZIProg) undefinedRef() bool {
	r := false
	for _, d := range p.Defs {
		d.Body.each(func(n *ZZINode) {
			if n.Kind == zzLabel {
				r = vn.Or(r, vn.Not(p.defined(n.Ref)))
			}
		})
	}
	return r
}

func (p *ZZIProg) dupLabel() bool {
	r := false
	for _, d := range p.Defs {
		d.Body.each(func(n *ZZINode) {
			if n.Kind == zzSel2 || n.Kind == zzBra2 {
				r = vn.Or(r, n.Lab0 == n.Lab1)
			}
		})
	}
	return r
}

// nonContractive: some definition's alias chain never reaches a structural constructor.
func (p *ZZIProg) nonContractive() bool {
	r := false
	for _, d0 := range p.Defs {
		if d0.Body.Kind != zzLabel {
			continue
		}
		// follow the chain symbolically for K+1 steps
		cur := d0.Body.Ref
		stillAlias := true
		for step := 0; step < p.K+1; step++ {
			nextAlias := false
			next := cur
			for _, d := range p.Defs {
				here := d.NameIdx == cur
				if d.Body.Kind == zzLabel {
					nextAlias = vn.Or(nextAlias, here)
					next = vn.Ite(here, d.Body.Ref, next)
				}
			}
			stillAlias = vn.And(stillAlias, nextAlias)
			cur = next
		}
		r = vn.Or(r, stillAlias)
	}
	return r
}

// modeOfName: the mode table lookup by (symbolic) name index.
func (p *ZZIProg) modeOfName(modes []int, ref int) int {
	r := zzUnsetIdx
	for i, d := range p.Defs {
		r = vn.Ite(d.NameIdx == ref, modes[i], r)
	}
	return r
}

func zzCombine(a, b int) int { return vn.Ite(a == zzUnsetIdx, b, a) }

// fixedBy: the mode that the components of n's region fix (zzUnsetIdx if none), given the
// current table. Shifts fix their target mode; names fix their definition's mode; an
// annotation above fixes everything (handled by the caller).
func (p *ZZIProg) fixedBy(n *ZZINode, modes []int) int {
	if n == nil {
		return zzUnsetIdx
	}
	switch n.Kind {
	case zzUnit:
		return zzUnsetIdx
	case zzLabel:
		return p.modeOfName(modes, n.Ref)
	case zzUp, zzDown:
		return n.To
	}
	return zzCombine(p.fixedBy(n.A, modes), p.fixedBy(n.B, modes))
}

// RefModes: reference inference of each definition's mode (least fixed point, then default).
func (p *ZZIProg) RefModes() []int {
	modes := make([]int, len(p.Defs))
	for i := range modes {
		modes[i] = zzUnsetIdx
	}
	for round := 0; round < p.K+1; round++ {
		next := make([]int, len(p.Defs))
		for i, d := range p.Defs {
			if d.HasAnn {
				next[i] = d.Ann
			} else {
				next[i] = zzCombine(modes[i], p.fixedBy(d.Body, modes))
			}
		}
		modes = next
	}
	for i := range modes {
		modes[i] = vn.Ite(modes[i] == zzUnsetIdx, 0, modes[i])
	}
	return modes
}

// modesBad: with the inferred table, some node contradicts the mode its region demands.
func (p *ZZIProg) modesBad(modes []int) bool {
	bad := false
	var chk func(n *ZZINode, ctx int)
	chk = func(n *ZZINode, ctx int) {
		if n == nil {
			return
		}
		switch n.Kind {
		case zzLabel:
			bad = vn.Or(bad, p.modeOfName(modes, n.Ref) != ctx)
		case zzUp:
			bad = vn.Or(bad, vn.Or(n.To != ctx, vn.Not(zzRefDown(n.To, n.From))))
			chk(n.A, n.From)
			return
		case zzDown:
			bad = vn.Or(bad, vn.Or(n.To != ctx, vn.Not(zzRefDown(n.From, n.To))))
			chk(n.A, n.From)
			return
		}
		chk(n.A, ctx)
		chk(n.B, ctx)
	}
	for i, d := range p.Defs {
		chk(d.Body, modes[i])
	}
	return bad
}

// WellFormed is the reference acceptance predicate of C10.
func (p *ZZIProg) WellFormed() (ok bool, modes []int) {
	modes = p.RefModes()
	structural := vn.Or(p.dupNames(), vn.Or(p.undefinedRef(), vn.Or(p.dupLabel(), p.nonContractive())))
	return vn.And(vn.Not(structural), vn.Not(p.modesBad(modes))), modes
}

// headAnnotationOverShift: the region of finding F15.
func (p *ZZIProg) annotationOverShift() bool {
	r := false
	for _, d := range p.Defs {
		if d.HasAnn && (d.Body.Kind == zzUp || d.Body.Kind == zzDown) {
			r = vn.Or(r, d.Ann != d.Body.To)
		}
	}
	return r
}
