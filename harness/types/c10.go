package types

// C10 — only well-formed, contractive, consistently-moded types are admitted.

import vn "grits/zzvn"

// ZZC10WF: conversion ∘ SetModalityTypeDef ∘ SanityChecksTypeDefinitions accepts a set of
// parser-shaped definitions iff the reference well-formedness holds; on accepted sets Unfold of
// every name reaches a structural type; nothing panics.
func ZZC10WF() {
	k := vn.Param("K", 1)
	d := vn.Param("D", 1)
	p := ZZGenIProg(k, d)
	want, _ := p.WellFormed()
	// F3: the duplicate-branch-label check never fires (set of seen labels never filled)
	vn.Known("F3", p.dupLabel())
	// F15: a head annotation that contradicts the shift it annotates is silently dropped
	vn.Known("F15", p.annotationOverShift())
	defs := p.RealDefs()
	var err error
	panicked := vn.Try(func() {
		SetModalityTypeDef(defs)
		err = SanityChecksTypeDefinitions(defs)
	})
	vn.Assert("C10.no-panic", vn.Not(panicked))
	accepted := err == nil
	vn.Observe("accepted", accepted)
	vn.Assert("C10.accept-iff-wellformed", accepted == want)
	if accepted {
		env := ProduceLabelledSessionTypeEnvironment(defs)
		for i := range defs {
			u := Unfold(NewLabelType(defs[i].Name, defs[i].Modality), env)
			_, isLabel := u.(*LabelType)
			vn.Assert("C10.unfold-structural", u != nil && !isLabel)
		}
	}
}

// ZZC10BadMode: an unknown mode word anywhere (head annotation or either side of a shift) makes
// the definition ill-formed.
func ZZC10BadMode() {
	where := vn.Pick(3)
	leaf := zzGenINode(0, 1)
	bad := StringToMode("purple")
	good := zzMode(vn.Int(0, 3), 4)
	var init SessionTypeInitial
	switch where {
	case 0:
		init = NewExplicitModeTypeInitial(bad, NewSendTypeInitial(leaf.T, NewUnitTypeInitial()))
	case 1:
		init = NewUpTypeInitial(bad, good, leaf.T)
	default:
		init = NewDownTypeInitial(good, bad, leaf.T)
	}
	defs := []SessionTypeDefinition{{Name: "T0", SessionType: ConvertSessionTypeInitialToSessionType(init)}}
	var err error
	panicked := vn.Try(func() {
		SetModalityTypeDef(defs)
		err = SanityChecksTypeDefinitions(defs)
	})
	vn.Assert("C10.badmode-no-panic", vn.Not(panicked))
	vn.Assert("C10.badmode-rejected", err != nil)
}

func init() {
	vn.Register("types.ZZC10WF", ZZC10WF)
	vn.Register("types.ZZC10BadMode", ZZC10BadMode)
}

// ZZC09Accepted (C09, termination under the *real* acceptance predicate): whatever set of
// definitions the real checks admit, the later phases' kernels (EqualType on every pair of
// definitions, Unfold, mode inference of an annotation naming each definition) return without
// panicking — so a hole in the admission checks cannot turn into a hang or crash later.
func ZZC09Accepted() {
	k := vn.Param("K", 2)
	d := vn.Param("D", 1)
	p := ZZGenIProg(k, d)
	defs := p.RealDefs()
	SetModalityTypeDef(defs)
	if SanityChecksTypeDefinitions(defs) != nil {
		return
	}
	env := ProduceLabelledSessionTypeEnvironment(defs)
	panicked := vn.Try(func() {
		for i := range defs {
			for j := range defs {
				EqualType(defs[i].SessionType, defs[j].SessionType, env)
			}
			var ann SessionType = ConvertSessionTypeInitialToSessionType(NewLabelTypeInitial(defs[i].Name))
			AddMissingModalities(&ann, env)
			_ = SanityChecksType([]SessionType{ann}, defs)
			Unfold(ann, env)
		}
	})
	vn.Assert("C09.accepted-definitions-are-safe-to-use", vn.Not(panicked))
}

func init() { vn.Register("types.ZZC09Accepted", ZZC09Accepted) }
