package types

// C16 — mode inference is deterministic, complete and annotation-stable.

import vn "grits/zzvn"

func zzIsMode(m Modality, idx int) bool { return m != nil && m.Equals(zzMode(idx, 5)) }

// zzModesAre: every node of the converted type t (built from n) carries the mode its region
// demands: ctx for the region of the root, the source mode below a shift, and a name carries
// the mode ctx as well (the reference demands ctx = that definition's mode for well-formed input).
func zzModesAre(t SessionType, n *ZZINode, ctx int) bool {
	switch n.Kind {
	case zzUnit:
		return zzIsMode(t.(*UnitType).Mode, ctx)
	case zzLabel:
		return zzIsMode(t.(*LabelType).Mode, ctx)
	case zzSend:
		s := t.(*SendType)
		return vn.And(zzIsMode(s.Mode, ctx), vn.And(zzModesAre(s.Left, n.A, ctx), zzModesAre(s.Right, n.B, ctx)))
	case zzRecv:
		s := t.(*ReceiveType)
		return vn.And(zzIsMode(s.Mode, ctx), vn.And(zzModesAre(s.Left, n.A, ctx), zzModesAre(s.Right, n.B, ctx)))
	case zzSel1:
		s := t.(*SelectLabelType)
		return vn.And(zzIsMode(s.Mode, ctx), zzModesAre(s.Branches[0].SessionType, n.A, ctx))
	case zzSel2:
		s := t.(*SelectLabelType)
		return vn.And(zzIsMode(s.Mode, ctx), vn.And(zzModesAre(s.Branches[0].SessionType, n.A, ctx), zzModesAre(s.Branches[1].SessionType, n.B, ctx)))
	case zzBra1:
		s := t.(*BranchCaseType)
		return vn.And(zzIsMode(s.Mode, ctx), zzModesAre(s.Branches[0].SessionType, n.A, ctx))
	case zzBra2:
		s := t.(*BranchCaseType)
		return vn.And(zzIsMode(s.Mode, ctx), vn.And(zzModesAre(s.Branches[0].SessionType, n.A, ctx), zzModesAre(s.Branches[1].SessionType, n.B, ctx)))
	case zzUp:
		s := t.(*UpType)
		return vn.And(vn.And(zzIsMode(s.From, n.From), zzIsMode(s.To, n.To)), zzModesAre(s.Continuation, n.A, n.From))
	}
	s := t.(*DownType)
	return vn.And(vn.And(zzIsMode(s.From, n.From), zzIsMode(s.To, n.To)), zzModesAre(s.Continuation, n.A, n.From))
}

// zzAnyUnset: some node of t still carries the unset mode.
func zzAnyUnset(t SessionType) bool {
	switch s := t.(type) {
	case *UnitType:
		return zzIsMode(s.Mode, zzUnsetIdx)
	case *LabelType:
		return zzIsMode(s.Mode, zzUnsetIdx)
	case *SendType:
		return vn.Or(zzIsMode(s.Mode, zzUnsetIdx), vn.Or(zzAnyUnset(s.Left), zzAnyUnset(s.Right)))
	case *ReceiveType:
		return vn.Or(zzIsMode(s.Mode, zzUnsetIdx), vn.Or(zzAnyUnset(s.Left), zzAnyUnset(s.Right)))
	case *SelectLabelType:
		r := zzIsMode(s.Mode, zzUnsetIdx)
		for i := range s.Branches {
			r = vn.Or(r, zzAnyUnset(s.Branches[i].SessionType))
		}
		return r
	case *BranchCaseType:
		r := zzIsMode(s.Mode, zzUnsetIdx)
		for i := range s.Branches {
			r = vn.Or(r, zzAnyUnset(s.Branches[i].SessionType))
		}
		return r
	case *UpType:
		return vn.Or(vn.Or(zzIsMode(s.From, zzUnsetIdx), zzIsMode(s.To, zzUnsetIdx)), zzAnyUnset(s.Continuation))
	case *DownType:
		return vn.Or(vn.Or(zzIsMode(s.From, zzUnsetIdx), zzIsMode(s.To, zzUnsetIdx)), zzAnyUnset(s.Continuation))
	}
	return true
}

// zzSameModes: two converted copies of the same parsed type carry pairwise equal modes.
func zzSameModes(a, b SessionType) bool {
	switch x := a.(type) {
	case *UnitType:
		return x.Mode.Equals(b.(*UnitType).Mode)
	case *LabelType:
		return x.Mode.Equals(b.(*LabelType).Mode)
	case *SendType:
		y := b.(*SendType)
		return vn.And(x.Mode.Equals(y.Mode), vn.And(zzSameModes(x.Left, y.Left), zzSameModes(x.Right, y.Right)))
	case *ReceiveType:
		y := b.(*ReceiveType)
		return vn.And(x.Mode.Equals(y.Mode), vn.And(zzSameModes(x.Left, y.Left), zzSameModes(x.Right, y.Right)))
	case *SelectLabelType:
		y := b.(*SelectLabelType)
		r := x.Mode.Equals(y.Mode)
		for i := range x.Branches {
			r = vn.And(r, zzSameModes(x.Branches[i].SessionType, y.Branches[i].SessionType))
		}
		return r
	case *BranchCaseType:
		y := b.(*BranchCaseType)
		r := x.Mode.Equals(y.Mode)
		for i := range x.Branches {
			r = vn.And(r, zzSameModes(x.Branches[i].SessionType, y.Branches[i].SessionType))
		}
		return r
	case *UpType:
		y := b.(*UpType)
		return vn.And(vn.And(x.From.Equals(y.From), x.To.Equals(y.To)), zzSameModes(x.Continuation, y.Continuation))
	case *DownType:
		y := b.(*DownType)
		return vn.And(vn.And(x.From.Equals(y.From), x.To.Equals(y.To)), zzSameModes(x.Continuation, y.Continuation))
	}
	return false
}

// fresh conversion of definition i, optionally with its head mode written explicitly
func (p *ZZIProg) freshDef(i int, explicit Modality) SessionTypeDefinition {
	d := p.Defs[i]
	var st SessionType
	switch {
	case d.HasAnn:
		st = ConvertSessionTypeInitialToSessionType(NewExplicitModeTypeInitial(zzMode(d.Ann, 4), d.Body.T))
	case explicit != nil:
		st = ConvertSessionTypeInitialToSessionType(NewExplicitModeTypeInitial(explicit, d.Body.T))
	default:
		st = ConvertSessionTypeInitialToSessionType(d.Body.T)
	}
	return SessionTypeDefinition{Name: d.Def.Name, SessionType: st}
}

// ZZC16Infer: inferred modes = reference inference; nothing left unset; stable under reversing
// the declaration order and under writing the inferred head annotation explicitly.
func ZZC16Infer() {
	k := vn.Param("K", 1)
	dep := vn.Param("D", 1)
	p := ZZGenIProg(k, dep)
	wf, ref := p.WellFormed()
	// names must be defined exactly once for "that definition's mode" to mean anything
	sane := vn.And(vn.Not(p.dupNames()), vn.Not(p.undefinedRef()))
	defs := p.RealDefs()
	SetModalityTypeDef(defs)
	err := SanityChecksTypeDefinitions(defs)

	// D1 nothing left unset (whenever every name is defined once)
	unset := false
	for i := range defs {
		unset = vn.Or(unset, vn.Or(zzIsMode(defs[i].Modality, zzUnsetIdx), zzAnyUnset(defs[i].SessionType)))
	}
	vn.Assert("C16.no-unset-mode", vn.Implies(sane, vn.Not(unset)))

	// D2 on well-formed input every mode is the reference one
	same := true
	for i, d := range p.Defs {
		same = vn.And(same, vn.And(zzIsMode(defs[i].Modality, ref[i]), zzModesAre(defs[i].SessionType, d.Body, ref[i])))
	}
	vn.Assert("C16.modes-equal-reference", vn.Implies(wf, same))

	// D3 declaration order: reversed list gives the same verdict and the same modes
	rev := make([]SessionTypeDefinition, k)
	for i := 0; i < k; i++ {
		rev[k-1-i] = p.freshDef(i, nil)
	}
	SetModalityTypeDef(rev)
	errRev := SanityChecksTypeDefinitions(rev)
	vn.Assert("C16.order-same-verdict", (err == nil) == (errRev == nil))
	sameRev := true
	for i := 0; i < k; i++ {
		sameRev = vn.And(sameRev, vn.And(defs[i].Modality.Equals(rev[k-1-i].Modality), zzSameModes(defs[i].SessionType, rev[k-1-i].SessionType)))
	}
	vn.Assert("C16.order-same-modes", vn.Implies(sane, sameRev))

	// D4 writing the inferred head mode explicitly changes nothing (on accepted input)
	if err == nil {
		exp := make([]SessionTypeDefinition, k)
		for i := 0; i < k; i++ {
			exp[i] = p.freshDef(i, defs[i].Modality)
		}
		SetModalityTypeDef(exp)
		errExp := SanityChecksTypeDefinitions(exp)
		vn.Assert("C16.annotation-stable-verdict", errExp == nil)
		sameExp := true
		for i := 0; i < k; i++ {
			sameExp = vn.And(sameExp, vn.And(defs[i].Modality.Equals(exp[i].Modality), zzSameModes(defs[i].SessionType, exp[i].SessionType)))
		}
		vn.Assert("C16.annotation-stable-modes", sameExp)
	}
	vn.Observe("accepted", err == nil)
}

func init() { vn.Register("types.ZZC16Infer", ZZC16Infer) }

// ZZC16Cycles: mutually recursive definitions whose mode is fixed in only one place of the
// cycle, used by a further definition, in every declaration order.
//
//	ping = C(pong)     pong = &{a : ping, b : X}     user = D(ping)     [leaf = m 1]
//
// The anchor that fixes the mode m is (0) the annotated leaf referenced as X, (1) an annotation
// on pong, (2) an annotation on ping, or (3) absent (everything defaults to replicable). All
// definitions must end up in the anchor's mode with no node left unset, the set must be accepted,
// and the result must not depend on the order of the declarations (all 24 orders).
func ZZC16Cycles() {
	mIdx := vn.Int(0, 3)
	anchor := vn.Pick(4)
	ctx := vn.Pick(3)
	userKind := vn.Pick(2)
	perm := vn.Pick(24)
	la, lb := zzLabelName(vn.Int(0, 2)), zzLabelName(vn.Int(0, 2))
	vn.Assume(vn.Not(vn.EqS(la, lb)))
	mode := func() Modality { return zzMode(mIdx, 4) }
	name := func(s string) SessionTypeInitial { return NewLabelTypeInitial(s) }
	unit := func() SessionTypeInitial { return NewUnitTypeInitial() }

	var ping SessionTypeInitial
	switch ctx {
	case 0:
		ping = NewSelectLabelTypeInitial([]OptionInitial{*NewOptionInitial(la, name("pong"))})
	case 1:
		ping = NewSendTypeInitial(name("pong"), unit())
	default:
		ping = NewReceiveTypeInitial(unit(), name("pong"))
	}
	x := unit()
	if anchor == 0 {
		x = name("leaf")
	}
	var pong SessionTypeInitial = NewBranchCaseTypeInitial([]OptionInitial{*NewOptionInitial(la, name("ping")), *NewOptionInitial(lb, x)})
	if anchor == 1 {
		pong = NewExplicitModeTypeInitial(mode(), pong)
	}
	if anchor == 2 {
		ping = NewExplicitModeTypeInitial(mode(), ping)
	}
	var user SessionTypeInitial
	if userKind == 0 {
		user = NewSendTypeInitial(name("ping"), unit())
	} else {
		user = NewSelectLabelTypeInitial([]OptionInitial{*NewOptionInitial(lb, name("ping"))})
	}
	leaf := NewExplicitModeTypeInitial(mode(), unit())
	all := []struct {
		n string
		t SessionTypeInitial
	}{{"ping", ping}, {"pong", pong}, {"user", user}, {"leaf", leaf}}
	// the perm-th permutation of the four declarations
	idx := []int{0, 1, 2, 3}
	var order []int
	for r, left := perm, 4; left > 0; left-- {
		order = append(order, idx[r%left])
		idx = append(idx[:r%left], idx[r%left+1:]...)
		r /= left
	}
	var defs []SessionTypeDefinition
	for _, i := range order {
		defs = append(defs, SessionTypeDefinition{Name: all[i].n, SessionType: ConvertSessionTypeInitialToSessionType(all[i].t)})
	}
	SetModalityTypeDef(defs)
	err := SanityChecksTypeDefinitions(defs)
	want := mIdx
	if anchor == 3 {
		want = 0 // replicable (index 0 of zzMode)
	}
	ok := true
	unset := false
	for i := range defs {
		unset = vn.Or(unset, vn.Or(zzIsMode(defs[i].Modality, zzUnsetIdx), zzAnyUnset(defs[i].SessionType)))
		if defs[i].Name != "leaf" {
			ok = vn.And(ok, zzIsMode(defs[i].Modality, want))
		}
	}
	vn.Assert("C16.recursive-definitions-get-the-anchor-mode", ok)
	vn.Assert("C16.recursive-definitions-no-unset-mode", vn.Not(unset))
	vn.Assert("C16.recursive-definitions-accepted-in-every-order", err == nil)
	vn.Observe("accepted", err == nil)
}

func init() { vn.Register("types.ZZC16Cycles", ZZC16Cycles) }
