package types

// C15 — printed types are unambiguous: the real String() of every constructor, over children of
// every kind, is (token for token) the text the grammar reads back as the same type.

import vn "grits/zzvn"

type zzPNode struct {
	kind       int
	name       string // label leaf: an arbitrary identifier
	l0, l1     string
	from, to   int
	a, b       *zzPNode
	t          SessionType
}

func zzGenP(depth int, seq *int) *zzPNode {
	n := &zzPNode{}
	m := zzMode(vn.Int(0, 3), 4)
	if depth == 0 {
		n.kind = vn.Pick(2)
	} else {
		n.kind = vn.Pick(zzNShapes)
	}
	switch n.kind {
	case zzUnit:
		n.t = NewUnitType(m)
	case zzLabel:
		*seq = *seq + 1
		n.name = vn.OpaqueStr(*seq)
		n.t = NewLabelType(n.name, m)
	case zzSend, zzRecv:
		n.a, n.b = zzGenP(depth-1, seq), zzGenP(depth-1, seq)
		if n.kind == zzSend {
			n.t = NewSendType(n.a.t, n.b.t, m)
		} else {
			n.t = NewReceiveType(n.a.t, n.b.t, m)
		}
	case zzSel1, zzBra1:
		n.l0 = zzLabelName(vn.Int(0, 2))
		n.a = zzGenP(depth-1, seq)
		opts := []Option{{Label: n.l0, SessionType: n.a.t}}
		if n.kind == zzSel1 {
			n.t = NewSelectLabelType(opts, m)
		} else {
			n.t = NewBranchCaseType(opts, m)
		}
	case zzSel2, zzBra2:
		n.l0, n.l1 = zzLabelName(vn.Int(0, 2)), zzLabelName(vn.Int(0, 2))
		n.a, n.b = zzGenP(depth-1, seq), zzGenP(depth-1, seq)
		opts := []Option{{Label: n.l0, SessionType: n.a.t}, {Label: n.l1, SessionType: n.b.t}}
		if n.kind == zzSel2 {
			n.t = NewSelectLabelType(opts, m)
		} else {
			n.t = NewBranchCaseType(opts, m)
		}
	default:
		n.from, n.to = vn.Int(0, 3), vn.Int(0, 3)
		n.a = zzGenP(depth-1, seq)
		if n.kind == zzUp {
			n.t = NewUpType(zzMode(n.from, 4), zzMode(n.to, 4), n.a.t)
		} else {
			n.t = NewDownType(zzMode(n.from, 4), zzMode(n.to, 4), n.a.t)
		}
	}
	return n
}

var zzModeWords = []string{"rep", "mul", "aff", "lin"}

// needsParens: as the left operand of `*` / `-*` the grammar (%right TIMES LOLLI UP_ARROW
// DOWN_ARROW, one level) would re-associate a binary type or extend a shift over the operator.
func (n *zzPNode) needsParens() bool {
	return n.kind == zzSend || n.kind == zzRecv || n.kind == zzUp || n.kind == zzDown
}

func (n *zzPNode) ref() string {
	left := func(x *zzPNode) string {
		if x.needsParens() {
			return "(" + x.ref() + ")"
		}
		return x.ref()
	}
	switch n.kind {
	case zzUnit:
		return "1"
	case zzLabel:
		return n.name
	case zzSend:
		return left(n.a) + " * " + n.b.ref()
	case zzRecv:
		return left(n.a) + " -* " + n.b.ref()
	case zzSel1:
		return "+{" + n.l0 + " : " + n.a.ref() + "}"
	case zzSel2:
		return "+{" + n.l0 + " : " + n.a.ref() + ", " + n.l1 + " : " + n.b.ref() + "}"
	case zzBra1:
		return "&{" + n.l0 + " : " + n.a.ref() + "}"
	case zzBra2:
		return "&{" + n.l0 + " : " + n.a.ref() + ", " + n.l1 + " : " + n.b.ref() + "}"
	case zzUp:
		return vn.StrOf(n.from, zzModeWords...) + " /\\ " + vn.StrOf(n.to, zzModeWords...) + " " + n.a.ref()
	}
	return vn.StrOf(n.from, zzModeWords...) + " \\/ " + vn.StrOf(n.to, zzModeWords...) + " " + n.a.ref()
}

func (n *zzPNode) leftNested() bool {
	if n == nil {
		return false
	}
	r := false
	if (n.kind == zzSend || n.kind == zzRecv) && n.a.needsParens() {
		r = true
	}
	return r || n.a.leftNested() || n.b.leftNested()
}

// ZZC15Types: String() of every type of depth <= D equals the reference text token for token.
func ZZC15Types() {
	seq := 0
	n := zzGenP(vn.Param("D", 2), &seq)
	// F10: the printers never parenthesise, so a binary or shift type as the left operand of
	// `*` / `-*` prints a text that reads back as a different type
	vn.Known("F10", n.leftNested())
	got := n.t.String()
	want := n.ref()
	vn.Assert("C15.type-text-reads-back", vn.EqS(vn.Tokens(got), vn.Tokens(want)))
}

func init() { vn.Register("types.ZZC15Types", ZZC15Types) }
