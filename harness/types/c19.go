package types

// C19 (types kernel): a type-equality query gives the reference answer also after an earlier
// query over a *different* environment that used the same type names.

import vn "grits/zzvn"

func ZZC19EqualAfterHistory() {
	// history: T0 = 1, T1 = 1 — the two names are equal there
	m := zzMode(0, 4)
	h := []SessionTypeDefinition{{Name: "T0", SessionType: NewUnitType(m), Modality: m}, {Name: "T1", SessionType: NewUnitType(m), Modality: m}}
	henv := ProduceLabelledSessionTypeEnvironment(h)
	_ = EqualType(NewLabelType("T0", m), NewLabelType("T1", m), henv)
	_ = EqualType(NewLabelType("T1", m), NewLabelType("T0", m), henv)
	// now an arbitrary environment over the same names and an arbitrary query
	k := vn.Param("K", 2)
	d := vn.Param("D", 0)
	e := ZZGenEnv(k, 1)
	s := ZZGenNode(d, vn.Int(0, 3), e.Modes)
	t := ZZGenNode(d, vn.Int(0, 3), e.Modes)
	want := e.EqualNodes(s, t)
	got := EqualType(s.T, t.T, e.Env)
	vn.Assert("C19.type-equality-independent-of-history", got == want)
}

func init() { vn.Register("types.ZZC19EqualAfterHistory", ZZC19EqualAfterHistory) }
