package types

// C17 — the four modes form the adjoint-logic preorder with monotone structural rules.
// Every mode below is a *symbolic* selector over the real mode values; the real methods of
// types/modality.go are executed (summarised from their SSA into ite-tables at call time).

import vn "grits/zzvn"

// mode numbering used by all harnesses: 0 replicable, 1 multicast, 2 affine, 3 linear, 4 unset, 5 invalid
func zzMkMode(i int) any {
	switch i {
	case 0:
		return NewReplicableMode()
	case 1:
		return NewMulticastMode()
	case 2:
		return NewAffineMode()
	case 3:
		return NewLinearMode()
	case 4:
		return NewUnsetMode()
	}
	return NewInvalidMode("bogus")
}

// zzMode returns the mode selected by sel among the first n modes (n=4: the proper modes).
func zzMode(sel int, n int) Modality {
	return vn.EnumOf(sel, n, zzMkMode).(Modality)
}

// reference order: m can be down-shifted to k  iff  m >= k in  R > {A, M} > L
func zzRefDown(m, k int) bool {
	return vn.Or(vn.Or(m == k, m == 0), k == 3)
}

func zzRefWeaken(m int) bool   { return vn.Or(m == 0, m == 2) }
func zzRefContract(m int) bool { return vn.Or(m == 0, m == 1) }

func ZZC17Orders() {
	mi, ki, ji := vn.Int(0, 3), vn.Int(0, 3), vn.Int(0, 3)
	m, k, j := zzMode(mi, 4), zzMode(ki, 4), zzMode(ji, 4)

	d := m.CanBeDownshiftedTo(k)
	vn.Assert("C17.down-table", d == zzRefDown(mi, ki))
	vn.Assert("C17.up-is-converse", k.CanBeUpshiftedTo(m) == d)
	vn.Assert("C17.reflexive", m.CanBeDownshiftedTo(m))
	vn.Assert("C17.transitive", vn.Implies(vn.And(d, k.CanBeDownshiftedTo(j)), m.CanBeDownshiftedTo(j)))
	vn.Assert("C17.antisymmetric", vn.Implies(vn.And(d, k.CanBeDownshiftedTo(m)), m.Equals(k)))
	vn.Assert("C17.equals", m.Equals(k) == (mi == ki))
	vn.Assert("C17.weakening-table", m.AllowsWeakening() == zzRefWeaken(mi))
	vn.Assert("C17.contraction-table", m.AllowsContraction() == zzRefContract(mi))
	vn.Assert("C17.weakening-monotone", vn.Implies(vn.And(d, k.AllowsWeakening()), m.AllowsWeakening()))
	vn.Assert("C17.contraction-monotone", vn.Implies(vn.And(d, k.AllowsContraction()), m.AllowsContraction()))
	vn.Assert("C17.top", zzMode(0, 4).CanBeDownshiftedTo(m))
	vn.Assert("C17.bottom", m.CanBeDownshiftedTo(zzMode(3, 4)))
	vn.Assert("C17.incomparable", vn.And(vn.Not(zzMode(1, 4).CanBeDownshiftedTo(zzMode(2, 4))), vn.Not(zzMode(2, 4).CanBeDownshiftedTo(zzMode(1, 4)))))
	vn.Assert("C17.copy", m.Copy().Equals(m))
	vn.Observe("down", d)
}

func zzModeIndex(m Modality) int {
	switch m.(type) {
	case *ReplicableMode:
		return 0
	case *MulticastMode:
		return 1
	case *AffineMode:
		return 2
	case *LinearMode:
		return 3
	case *UnsetMode:
		return 4
	}
	return 5
}

// spellings: StringToMode(s) is mode X iff s is one of the three documented spellings of X.
func ZZC17Spellings() {
	n := vn.Pick(11) // length 0..10
	rs := make([]rune, n)
	for i := range rs {
		r := vn.Rune()
		// upper-case spellings are outside the claim (strings.ToLower is stubbed as identity)
		vn.Assume(vn.Not(vn.And('A' <= r, r <= 'Z')))
		// non-ASCII letters with special lower-casing are outside too
		vn.Assume(r < 128)
		rs[i] = r
	}
	s := string(rs)
	got := zzModeIndex(StringToMode(s))
	isR := vn.Or(vn.Or(vn.EqS(s, "r"), vn.EqS(s, "rep")), vn.EqS(s, "replicable"))
	isM := vn.Or(vn.Or(vn.EqS(s, "m"), vn.EqS(s, "mul")), vn.EqS(s, "multicast"))
	isA := vn.Or(vn.Or(vn.EqS(s, "a"), vn.EqS(s, "aff")), vn.EqS(s, "affine"))
	isL := vn.Or(vn.Or(vn.EqS(s, "l"), vn.EqS(s, "lin")), vn.EqS(s, "linear"))
	want := vn.Ite(isR, 0, vn.Ite(isM, 1, vn.Ite(isA, 2, vn.Ite(isL, 3, 5))))
	vn.Assert("C17.spelling", got == want)
	vn.Observe("got", got)
}

// names round-trip: both printed names of a mode denote that mode.
func ZZC17Names() {
	mi := vn.Int(0, 3)
	m := zzMode(mi, 4)
	vn.Assert("C17.short-name", zzModeIndex(StringToMode(m.String())) == mi)
	vn.Assert("C17.full-name", zzModeIndex(StringToMode(m.FullString())) == mi)
}

// ZZC17Documented: the twelve documented spellings, as concrete strings (whatever string
// functions the implementation uses run concretely), denote their modes; a few near misses
// denote none.
func ZZC17Documented() {
	spell := [][]string{{"r", "rep", "replicable"}, {"m", "mul", "multicast"}, {"a", "aff", "affine"}, {"l", "lin", "linear"}}
	mi := vn.Pick(4)
	k := vn.Pick(3)
	vn.Assert("C17.documented-spelling-denotes-its-mode", zzModeIndex(StringToMode(spell[mi][k])) == mi)
	miss := []string{"", "x", "re", "mu", "af", "li", "replicables", "ml", "lr"}[vn.Pick(9)]
	vn.Assert("C17.undocumented-spelling-denotes-no-mode", zzModeIndex(StringToMode(miss)) < 0 || zzModeIndex(StringToMode(miss)) > 3)
}

func init() {
	vn.Register("types.ZZC17Documented", ZZC17Documented)
	vn.Register("types.ZZC17Orders", ZZC17Orders)
	vn.Register("types.ZZC17Spellings", ZZC17Spellings)
	vn.Register("types.ZZC17Names", ZZC17Names)
}
