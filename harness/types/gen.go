package types

// Shared generators and the reference bisimilarity oracle (DESIGN.md §2).
//
// A generated type is a *lazy* tree: every node is a symbolic choice (vn.EnumOf) among the ten
// shapes below, so the code under test forks on a node's constructor only when it inspects it.
// The oracle works on the parallel ZZNode tree whose fields are the same symbolic integers.

import vn "grits/zzvn"

// shapes
const (
	zzUnit    = 0
	zzLabel   = 1
	zzSend    = 2
	zzRecv    = 3
	zzSel1    = 4
	zzSel2    = 5
	zzBra1    = 6
	zzBra2    = 7
	zzUp      = 8
	zzDown    = 9
	zzNShapes = 10
)

var ZZTypeNames = []string{"T0", "T1", "T2", "T3"}
var ZZLabels = []string{"l", "m", "n"}

type ZZNode struct {
	Sel  int // shape (symbolic)
	Mode int // mode index of the node (for shifts: the target mode "To")
	From int // shifts: source mode (mode of the continuation)
	Lab0 int
	Lab1 int
	Ref  int // label: referenced definition
	A, B *ZZNode // children in mode Mode
	C    *ZZNode // child in mode From (shift continuation)
	D    int     // concrete depth bound of this node (0 = leaf)
	T    SessionType
}

type ZZEnv struct {
	K     int
	Modes []int
	Body  []*ZZNode
	Defs  []SessionTypeDefinition
	Env   LabelledTypesEnv

	BodyDepth int
	res       []*ZZNode
	resMemo   map[*ZZNode]*ZZNode
	neMemo    map[zzPair]bool
	table     zzTable
}

// zzSelInt returns xs[i] for a symbolic i (branch-free).
func zzSelInt(xs []int, i int) int {
	r := xs[len(xs)-1]
	for k := len(xs) - 2; k >= 0; k-- {
		r = vn.Ite(i == k, xs[k], r)
	}
	return r
}

func zzTypeName(ref int, k int) string {
	return vn.StrOf(ref, ZZTypeNames[:k]...)
}

func zzLabelName(l int) string { return vn.StrOf(l, ZZLabels...) }

// ZZGenNode generates a lazy well-moded type of depth <= depth in mode `mode` over the K names
// whose modes are defModes. maxShape limits the root (zzNShapes = anything; 2 = leaf).
func ZZGenNode(depth int, mode int, defModes []int) *ZZNode {
	k := len(defModes)
	n := &ZZNode{Mode: mode, D: depth}
	if depth == 0 {
		if k == 0 {
			n.Sel = vn.Int(0, 0)
		} else {
			n.Sel = vn.Int(0, 1)
		}
	} else {
		n.Sel = vn.Int(0, zzNShapes-1)
		if k == 0 {
			vn.Assume(n.Sel != zzLabel)
		}
	}
	if vn.Param("MENU", 0) == 1 {
		// binary menu: 1, name, A * B, A -* B (deep left/right nestings at an affordable cost)
		vn.Assume(n.Sel <= zzRecv)
	}
	if k > 0 {
		n.Ref = vn.Int(0, k-1)
		// a reference carries the mode of the definition it names (well-formed input)
		vn.Assume(vn.Implies(n.Sel == zzLabel, zzSelInt(defModes, n.Ref) == mode))
	}
	if depth > 0 {
		n.Lab0 = vn.Int(0, len(ZZLabels)-1)
		n.Lab1 = vn.Int(0, len(ZZLabels)-1)
		vn.Assume(n.Lab0 != n.Lab1)
		n.From = vn.Int(0, 3)
		// legal shifts only: up from a weaker to a stronger mode, down from stronger to weaker
		vn.Assume(vn.Implies(n.Sel == zzUp, zzRefDown(mode, n.From)))
		vn.Assume(vn.Implies(n.Sel == zzDown, zzRefDown(n.From, mode)))
		n.A = ZZGenNode(depth-1, mode, defModes)
		n.B = ZZGenNode(depth-1, mode, defModes)
		n.C = ZZGenNode(depth-1, n.From, defModes)
	}
	n.T = n.build(k)
	return n
}

func (n *ZZNode) build(k int) SessionType {
	nshapes := zzNShapes
	if n.A == nil {
		nshapes = 2
	}
	return vn.EnumOf(n.Sel, nshapes, func(i int) any {
		m := zzMode(n.Mode, 4)
		switch i {
		case zzUnit:
			return NewUnitType(m)
		case zzLabel:
			if k == 0 {
				return NewUnitType(m)
			}
			return NewLabelType(zzTypeName(n.Ref, k), m)
		case zzSend:
			return NewSendType(n.A.T, n.B.T, m)
		case zzRecv:
			return NewReceiveType(n.A.T, n.B.T, m)
		case zzSel1:
			return NewSelectLabelType([]Option{{Label: zzLabelName(n.Lab0), SessionType: n.A.T}}, m)
		case zzSel2:
			return NewSelectLabelType([]Option{{Label: zzLabelName(n.Lab0), SessionType: n.A.T}, {Label: zzLabelName(n.Lab1), SessionType: n.B.T}}, m)
		case zzBra1:
			return NewBranchCaseType([]Option{{Label: zzLabelName(n.Lab0), SessionType: n.A.T}}, m)
		case zzBra2:
			return NewBranchCaseType([]Option{{Label: zzLabelName(n.Lab0), SessionType: n.A.T}, {Label: zzLabelName(n.Lab1), SessionType: n.B.T}}, m)
		case zzUp:
			return NewUpType(zzMode(n.From, 4), m, n.C.T)
		}
		return NewDownType(zzMode(n.From, 4), m, n.C.T)
	}).(SessionType)
}

// ZZGenEnv generates K well-formed, contractive, mode-complete definitions with bodies of depth 1.
// An alias body (a bare name) may only name a lower-numbered definition, so alias chains end.
func ZZGenEnv(k int, bodyDepth int) *ZZEnv {
	e := &ZZEnv{K: k, BodyDepth: bodyDepth}
	for i := 0; i < k; i++ {
		e.Modes = append(e.Modes, vn.Int(0, 3))
	}
	for i := 0; i < k; i++ {
		b := ZZGenNode(bodyDepth, e.Modes[i], e.Modes)
		vn.Assume(vn.Implies(b.Sel == zzLabel, b.Ref < i))
		e.Body = append(e.Body, b)
		e.Defs = append(e.Defs, SessionTypeDefinition{Name: ZZTypeNames[i], SessionType: b.T, Modality: zzMode(e.Modes[i], 4)})
	}
	e.Env = ProduceLabelledSessionTypeEnvironment(e.Defs)
	return e
}

// ---------- reference bisimilarity (inequivalence as a least fixed point) ----------

type zzTable [][]bool // N[i][j]: names i and j are NOT equivalent

func zzNewTable(k int) zzTable {
	t := make(zzTable, k)
	for i := range t {
		t[i] = make([]bool, k)
	}
	return t
}

func (t zzTable) sel2(i, j int) bool {
	r := false
	for a := range t {
		for b := range t[a] {
			r = vn.Or(r, vn.And(vn.And(i == a, j == b), t[a][b]))
		}
	}
	return r
}

// zzMerge returns the node that equals b when c holds and a otherwise (field-wise ite).
func zzMerge(c bool, b, a *ZZNode) *ZZNode {
	if a == nil || b == nil {
		if a == nil {
			return b
		}
		return a
	}
	n := &ZZNode{
		Sel:  vn.Ite(c, b.Sel, a.Sel),
		Mode: vn.Ite(c, b.Mode, a.Mode),
		From: vn.Ite(c, b.From, a.From),
		Lab0: vn.Ite(c, b.Lab0, a.Lab0),
		Lab1: vn.Ite(c, b.Lab1, a.Lab1),
		Ref:  vn.Ite(c, b.Ref, a.Ref),
		D:    a.D,
	}
	if a.T != nil && b.T != nil {
		n.T = vn.IteAny(c, b.T, a.T).(SessionType)
	} else if a.T != nil {
		n.T = a.T
	} else {
		n.T = b.T
	}
	if b.D > n.D {
		n.D = b.D
	}
	if a.A != nil || b.A != nil {
		n.A = zzMerge(c, b.A, a.A)
		n.B = zzMerge(c, b.B, a.B)
		n.C = zzMerge(c, b.C, a.C)
	}
	return n
}

// Resolved(k): the structural type name k stands for (alias chains followed; they go downwards).
func (e *ZZEnv) resolvedBody(k int) *ZZNode {
	if e.res == nil {
		e.res = make([]*ZZNode, e.K)
	}
	if e.res[k] != nil {
		return e.res[k]
	}
	r := e.Body[k]
	for j := 0; j < k; j++ {
		r = zzMerge(vn.And(e.Body[k].Sel == zzLabel, e.Body[k].Ref == j), e.resolvedBody(j), r)
	}
	e.res[k] = r
	return r
}

// resolve(x): x itself if structural, else the structural body of the name it refers to.
func (e *ZZEnv) resolve(x *ZZNode) *ZZNode {
	if r, ok := e.resMemo[x]; ok {
		return r
	}
	r := x
	for k := 0; k < e.K; k++ {
		r = zzMerge(vn.And(x.Sel == zzLabel, x.Ref == k), e.resolvedBody(k), r)
	}
	if e.resMemo == nil {
		e.resMemo = map[*ZZNode]*ZZNode{}
	}
	e.resMemo[x] = r
	return r
}

type zzPair struct{ x, y *ZZNode }

// ne: x and y (types over e) are not bisimilar, given the name table n of the previous round.
// The recursion is on the concrete depth bounds of x and y: two leaves are decided by neLeaf.
func (e *ZZEnv) ne(x, y *ZZNode, n zzTable) bool {
	key := zzPair{x, y}
	if v, ok := e.neMemo[key]; ok {
		return v
	}
	var r bool
	switch {
	case e.K == 0:
		r = e.neStruct(x, y, n)
	case x.D == 0 && y.D == 0:
		r = e.neLeaf(x, y, n)
	default:
		bothLabels := vn.And(x.Sel == zzLabel, y.Sel == zzLabel)
		r = vn.Or(vn.And(bothLabels, n.sel2(x.Ref, y.Ref)),
			vn.And(vn.Not(bothLabels), e.neStruct(e.resolve(x), e.resolve(y), n)))
	}
	e.neMemo[key] = r
	return r
}

// two leaves (unit or a name): two names use the table; otherwise at least one is unit and they
// are equivalent iff the other one stands for unit in the same mode.
func (e *ZZEnv) neLeaf(x, y *ZZNode, n zzTable) bool {
	bothLabels := vn.And(x.Sel == zzLabel, y.Sel == zzLabel)
	rx, ry := e.resolve(x), e.resolve(y)
	diff := vn.Or(rx.Sel != zzUnit, vn.Or(ry.Sel != zzUnit, rx.Mode != ry.Mode))
	return vn.Or(vn.And(bothLabels, n.sel2(x.Ref, y.Ref)), vn.And(vn.Not(bothLabels), diff))
}

// both structural
func (e *ZZEnv) neStruct(x, y *ZZNode, n zzTable) bool {
	diffHead := x.Sel != y.Sel
	diffMode := x.Mode != y.Mode
	if x.A == nil || y.A == nil {
		// at least one is a leaf: the only structural leaf is unit
		return vn.Or(diffHead, vn.Or(x.Sel != zzUnit, diffMode))
	}
	aa := e.ne(x.A, y.A, n)
	bb := e.ne(x.B, y.B, n)
	ab := e.ne(x.A, y.B, n)
	ba := e.ne(x.B, y.A, n)
	cc := e.ne(x.C, y.C, n)
	binary := vn.Or(diffMode, vn.Or(aa, bb))
	one := vn.Or(diffMode, vn.Or(x.Lab0 != y.Lab0, aa))
	straight := vn.And(x.Lab0 == y.Lab0, x.Lab1 == y.Lab1)
	crossed := vn.And(x.Lab0 == y.Lab1, x.Lab1 == y.Lab0)
	two := vn.Or(diffMode, vn.Or(vn.Not(vn.Or(straight, crossed)),
		vn.Or(vn.And(straight, vn.Or(aa, bb)), vn.And(crossed, vn.Or(ab, ba)))))
	shift := vn.Or(diffMode, vn.Or(x.From != y.From, cc))
	s := x.Sel
	byShape := vn.Or(vn.And(s == zzUnit, diffMode),
		vn.Or(vn.And(vn.Or(s == zzSend, s == zzRecv), binary),
			vn.Or(vn.And(vn.Or(s == zzSel1, s == zzBra1), one),
				vn.Or(vn.And(vn.Or(s == zzSel2, s == zzBra2), two),
					vn.And(vn.Or(s == zzUp, s == zzDown), shift)))))
	return vn.Or(diffHead, byShape)
}

// Fixpoint computes the name table: K*K+1 rounds reach the least fixed point.
func (e *ZZEnv) Fixpoint() zzTable {
	n := zzNewTable(e.K)
	rounds := e.K*e.K + 1
	for r := 0; r < rounds; r++ {
		nn := zzNewTable(e.K)
		e.neMemo = map[zzPair]bool{}
		for i := 0; i < e.K; i++ {
			for j := 0; j < e.K; j++ {
				nn[i][j] = e.ne(e.Body[i], e.Body[j], n)
			}
		}
		n = nn
	}
	e.neMemo = map[zzPair]bool{}
	return n
}

// Equal is the reference verdict for two generated types of depth <= d each.
func (e *ZZEnv) Equal(x, y *ZZNode, n zzTable, d int) bool {
	if e.neMemo == nil {
		e.neMemo = map[zzPair]bool{}
	}
	return vn.Not(e.ne(x, y, n))
}

// ---------- exported helpers for the typing-rule harnesses (package process) ----------

type ZZTable = zzTable

func ZZMerge(c bool, b, a *ZZNode) *ZZNode { return zzMerge(c, b, a) }

// Unf: the structural view of x (x itself, or the body its name stands for).
func (e *ZZEnv) Unf(x *ZZNode) *ZZNode {
	if e.K == 0 {
		return x
	}
	return e.resolve(x)
}

func ZZRefDown(m, k int) bool   { return zzRefDown(m, k) }
func ZZRefWeaken(m int) bool    { return zzRefWeaken(m) }
func ZZRefContract(m int) bool  { return zzRefContract(m) }
func ZZMode(sel int) Modality   { return zzMode(sel, 4) }
func ZZLabelName(l int) string  { return zzLabelName(l) }

const (
	ZZUnit  = zzUnit
	ZZLabel = zzLabel
	ZZSend  = zzSend
	ZZRecv  = zzRecv
	ZZSel1  = zzSel1
	ZZSel2  = zzSel2
	ZZBra1  = zzBra1
	ZZBra2  = zzBra2
	ZZUp    = zzUp
	ZZDown  = zzDown
)

// EqualNodes: reference type equality with the table computed once per environment.
func (e *ZZEnv) EqualNodes(x, y *ZZNode) bool {
	if e.table == nil {
		e.table = e.Fixpoint()
	}
	if e.neMemo == nil {
		e.neMemo = map[zzPair]bool{}
	}
	return vn.Not(e.ne(x, y, e.table))
}
