package types

// C08 — type equality is equi-recursive equality and always terminates.

import (
	"time"

	vn "grits/zzvn"
)

// ZZC08Oracle: EqualType(S, T, E) returns (unwinding assertion = call-depth limit of the run),
// does not panic, and agrees with the reference bisimilarity, for every well-formed contractive
// environment of K names and all S, T up to depth D.
func ZZC08Oracle() {
	k := vn.Param("K", 2)
	d := vn.Param("D", 1)
	e := ZZGenEnv(k, vn.Param("BD", 1))
	alias := false
	for i := 0; i < k; i++ {
		alias = vn.Or(alias, e.Body[i].Sel == zzLabel)
	}
	sm, tm := vn.Int(0, 3), vn.Int(0, 3)
	s := ZZGenNode(vn.Param("DS", d), sm, e.Modes)
	t := ZZGenNode(vn.Param("DT", d), tm, e.Modes)
	n := e.Fixpoint()
	// F1: an alias definition (type A = B) makes the memo key of the unfolded pair pre-assumed
	vn.Known("F1", alias)
	// F2: two different names that denote the same recursive type are never recognised by the memo
	twins := false
	for i := 0; i < k; i++ {
		for j := i + 1; j < k; j++ {
			twins = vn.Or(twins, vn.Not(n[i][j]))
		}
	}
	vn.Known("F2", twins)
	want := e.Equal(s, t, n, d)
	var got bool
	panicked := vn.Try(func() { got = EqualType(s.T, t.T, e.Env) })
	vn.Assert("C08.no-panic", vn.Not(panicked))
	vn.Assert("C08.equals-bisimilarity", got == want)
	vn.Observe("got", got)
}

// ZZC08Laws: symmetry and reflexivity of the real function (no oracle involved).
func ZZC08Laws() {
	k := vn.Param("K", 2)
	d := vn.Param("D", 1)
	e := ZZGenEnv(k, 1)
	alias := false
	for i := 0; i < k; i++ {
		alias = vn.Or(alias, e.Body[i].Sel == zzLabel)
	}
	vn.Known("F1", alias)
	vn.Known("F2", k > 1)
	sm, tm := vn.Int(0, 3), vn.Int(0, 3)
	s := ZZGenNode(d, sm, e.Modes)
	t := ZZGenNode(d, tm, e.Modes)
	st := EqualType(s.T, t.T, e.Env)
	ts := EqualType(t.T, s.T, e.Env)
	vn.Assert("C08.symmetric", st == ts)
	vn.Assert("C08.reflexive", EqualType(s.T, s.T, e.Env))
}

func init() {
	vn.Register("types.ZZC08Oracle", ZZC08Oracle)
	vn.Register("types.ZZC08Laws", ZZC08Laws)
}

// ZZC08Nesting: one call that compares the same name against two differently associated
// binary types: S = L ⊙ L' over two definitions with binary bodies of depth 1 (so a name unfolds
// to a binary type of depth 2), T = T1 ⊙ T2 with T1, T2
// binary types of depth 2 (1, *, -* only). The memo of innerEqualType is keyed by printed forms;
// a key that does not keep `(1 * 1) * 1` and `1 * (1 * 1)` apart answers the second comparison
// from the first one.
func ZZC08Nesting() {
	e := ZZGenEnv(2, 1)
	m := vn.Int(0, 3)
	s := ZZGenNode(1, m, e.Modes)
	vn.Assume(vn.And(vn.Or(s.Sel == zzSend, s.Sel == zzRecv), vn.And(s.A.Sel == zzLabel, s.B.Sel == zzLabel)))
	// T0 = 1 ⊙ 1; T1 has T0 as one operand and 1 as the other; S = T1 ⊙ T1; T has no names
	b0, b1 := e.Body[0], e.Body[1]
	vn.Assume(vn.And(vn.Or(b0.Sel == zzSend, b0.Sel == zzRecv), vn.And(b0.A.Sel == zzUnit, b0.B.Sel == zzUnit)))
	vn.Assume(vn.Or(b1.Sel == zzSend, b1.Sel == zzRecv))
	vn.Assume(vn.Or(vn.And(vn.And(b1.A.Sel == zzLabel, b1.A.Ref == 0), b1.B.Sel == zzUnit), vn.And(vn.And(b1.B.Sel == zzLabel, b1.B.Ref == 0), b1.A.Sel == zzUnit)))
	vn.Assume(vn.And(s.A.Ref == 1, s.B.Ref == 1))
	t := ZZGenNode(3, m, e.Modes)
	zzNoNames(t)
	vn.Assume(s.Sel == t.Sel)
	n := e.Fixpoint()
	want := e.Equal(s, t, n, 3)
	var got bool
	panicked := vn.Try(func() { got = EqualType(s.T, t.T, e.Env) })
	vn.Assert("C08.no-panic", vn.Not(panicked))
	vn.Assert("C08.equals-bisimilarity", got == want)
	vn.Observe("got", got)
}

func zzNoNames(n *ZZNode) {
	if n == nil {
		return
	}
	vn.Assume(n.Sel != zzLabel)
	zzNoNames(n.A)
	zzNoNames(n.B)
	zzNoNames(n.C)
}

func init() { vn.Register("types.ZZC08Nesting", ZZC08Nesting) }

// zzCycle builds two families of n mutually recursive two-branch choice definitions
// (A_i = +{l : A_{i+1}, r : A_{i+1}} with A_n = A_0, likewise B_i): A_0 and B_0 denote the same
// regular tree, and a comparison that memoises every pair expands each of the n pairs
// (A_i, B_i) once.
func zzCycle(n int, internal bool, mode Modality, l0, l1 string) (SessionType, SessionType, LabelledTypesEnv) {
	var defs []SessionTypeDefinition
	name := func(f string, i int) string { return f + string(rune('a'+i%26)) + string(rune('a'+i/26)) }
	for _, fam := range []string{"A", "B"} {
		for i := 0; i < n; i++ {
			next := NewLabelType(name(fam, (i+1)%n), mode)
			next2 := NewLabelType(name(fam, (i+1)%n), mode)
			opts := []Option{*NewOption(l0, next), *NewOption(l1, next2)}
			var body SessionType
			if internal {
				body = NewSelectLabelType(opts, mode)
			} else {
				body = NewBranchCaseType(opts, mode)
			}
			defs = append(defs, SessionTypeDefinition{Name: name(fam, i), SessionType: body, Modality: mode})
		}
	}
	return NewLabelType(name("A", 0), mode), NewLabelType(name("B", 0), mode), ProduceLabelledSessionTypeEnvironment(defs)
}

// ZZC08Cost: the cost of one comparison grows linearly with the number of distinct pairs, not
// exponentially with the depth of the cycle. Under gse the calls of innerEqualType are counted
// on cycles of N definitions (symbolic labels and mode); natively the same family is scaled up
// (64 definitions: 2^65 calls without sharing) and must answer within 3 s.
func ZZC08Cost() {
	n := vn.Param("N", 4)
	internal := vn.Bool()
	mode := zzMode(vn.Int(0, 3), 4)
	l0, l1 := zzLabelName(vn.Int(0, 2)), zzLabelName(vn.Int(0, 2))
	vn.Assume(vn.Not(vn.EqS(l0, l1)))
	if !vn.Symbolic() {
		a, b, env := zzCycle(64, internal, mode, l0, l1)
		got := false
		ok := vn.Within(3*time.Second, func() { got = EqualType(a, b, env) })
		vn.Assert("C08.comparison-cost-is-linear-in-the-pairs", ok)
		vn.Assert("C09.type-comparison-answers-in-bounded-time", ok)
		vn.Assert("C08.equal-cycles-are-equal", !ok || got)
		return
	}
	a, b, env := zzCycle(n, internal, mode, l0, l1)
	vn.CountCalls("innerEqualType")
	got := EqualType(a, b, env)
	calls := vn.Calls()
	// one call per pair (A_i, B_i), two recursive calls for its branches, plus the entry
	vn.Assert("C08.comparison-cost-is-linear-in-the-pairs", calls <= 4*n+4)
	vn.Assert("C09.type-comparison-answers-in-bounded-time", calls <= 4*n+4)
	vn.Assert("C08.equal-cycles-are-equal", got)
}

func init() { vn.Register("types.ZZC08Cost", ZZC08Cost) }

// zzCtx wraps t in one unary context: a one-branch choice, a product or function type with a
// unit on the other side.
func zzCtx(kind int, label string, mode Modality, t SessionType) SessionType {
	switch kind {
	case 0:
		return NewSelectLabelType([]Option{*NewOption(label, t)}, mode)
	case 1:
		return NewBranchCaseType([]Option{*NewOption(label, t)}, mode)
	case 2:
		return NewSendType(NewUnitType(mode), t, mode)
	case 3:
		return NewSendType(t, NewUnitType(mode), mode)
	default:
		return NewReceiveType(NewUnitType(mode), t, mode)
	}
}

func zzCtxN(n int, kind int, label string, mode Modality, t SessionType) SessionType {
	for i := 0; i < n; i++ {
		t = zzCtx(kind, label, mode, t)
	}
	return t
}

// ZZC08Phases: recursive types whose names are reached at different depths on the two sides.
// type A = C^p(A), type B = C^q(B) (C a unary context, p, q in 1..3) denote the same regular
// tree C^ω; so do C^i(A) and C^j(B) for all i, j. EqualType must say so within the unwinding
// bound (pairs of a name and a structure recur on such inputs: a memo that only remembers pairs
// of names never closes the cycle), and must tell them apart as soon as one context on one side
// carries a different label.
func ZZC08Phases() {
	kind := vn.Pick(5)
	mode := zzMode(vn.Int(0, 3), 4)
	lab := zzLabelName(vn.Int(0, 2))
	other := zzLabelName(vn.Int(0, 2))
	p, q := 1+vn.Pick(3), 1+vn.Pick(3)
	i, j := vn.Pick(3), vn.Pick(3)
	twist := vn.Bool()
	nameA, nameB := NewLabelType("A", mode), NewLabelType("B", mode)
	defs := []SessionTypeDefinition{
		{Name: "A", SessionType: zzCtxN(p, kind, lab, mode, NewLabelType("A", mode)), Modality: mode},
		{Name: "B", SessionType: zzCtxN(q, kind, lab, mode, NewLabelType("B", mode)), Modality: mode},
	}
	env := ProduceLabelledSessionTypeEnvironment(defs)
	s := zzCtxN(i, kind, lab, mode, nameA)
	var t SessionType = zzCtxN(j, kind, lab, mode, nameB)
	differ := false
	if twist && kind <= 1 {
		// one more context on the right, under a label that may differ
		t = zzCtx(kind, other, mode, t)
		differ = !vn.EqS(lab, other)
	}
	got := EqualType(s, t, env)
	vn.Assert("C08.out-of-phase-recursion-decided", got == !differ)
	vn.Assert("C09.type-comparison-terminates-on-out-of-phase-recursion", true)
	vn.Observe("got", got)
}

func init() { vn.Register("types.ZZC08Phases", ZZC08Phases) }
