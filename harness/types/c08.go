package types

// C08 — type equality is equi-recursive equality and always terminates.

import vn "grits/zzvn"

// ZZC08Oracle: EqualType(S, T, E) returns (unwinding assertion = call-depth limit of the run),
// does not panic, and agrees with the reference bisimilarity, for every well-formed contractive
// environment of K names and all S, T up to depth D.
func ZZC08Oracle() {
	k := vn.Param("K", 2)
	d := vn.Param("D", 1)
	e := ZZGenEnv(k, 1)
	alias := false
	for i := 0; i < k; i++ {
		alias = vn.Or(alias, e.Body[i].Sel == zzLabel)
	}
	sm, tm := vn.Int(0, 3), vn.Int(0, 3)
	s := ZZGenNode(vn.Param("DS", d), sm, e.Modes)
	t := ZZGenNode(vn.Param("DT", d), tm, e.Modes)
	n := e.Fixpoint()
	// F1: an alias definition (type A = B) makes the memo key of the unfolded pair pre-assumed
	vn.Known("F1", alias)
	// F2: two different names that denote the same recursive type are never recognised by the memo
	twins := false
	for i := 0; i < k; i++ {
		for j := i + 1; j < k; j++ {
			twins = vn.Or(twins, vn.Not(n[i][j]))
		}
	}
	vn.Known("F2", twins)
	want := e.Equal(s, t, n, d)
	var got bool
	panicked := vn.Try(func() { got = EqualType(s.T, t.T, e.Env) })
	vn.Assert("C08.no-panic", vn.Not(panicked))
	vn.Assert("C08.equals-bisimilarity", got == want)
	vn.Observe("got", got)
}

// ZZC08Laws: symmetry and reflexivity of the real function (no oracle involved).
func ZZC08Laws() {
	k := vn.Param("K", 2)
	d := vn.Param("D", 1)
	e := ZZGenEnv(k, 1)
	alias := false
	for i := 0; i < k; i++ {
		alias = vn.Or(alias, e.Body[i].Sel == zzLabel)
	}
	vn.Known("F1", alias)
	vn.Known("F2", k > 1)
	sm, tm := vn.Int(0, 3), vn.Int(0, 3)
	s := ZZGenNode(d, sm, e.Modes)
	t := ZZGenNode(d, tm, e.Modes)
	st := EqualType(s.T, t.T, e.Env)
	ts := EqualType(t.T, s.T, e.Env)
	vn.Assert("C08.symmetric", st == ts)
	vn.Assert("C08.reflexive", EqualType(s.T, s.T, e.Env))
}

func init() {
	vn.Register("types.ZZC08Oracle", ZZC08Oracle)
	vn.Register("types.ZZC08Laws", ZZC08Laws)
}
