// Package vn is the nondeterminism API used by the verification harnesses.
//
// Under the symbolic executor (gse) every exported function below is intercepted by name and
// given its symbolic meaning (fresh SMT variable, assumption, assertion, ...). The bodies in
// this file are the *native* meaning, used when a solver model is replayed against the real
// build: values come from a recorded vector, Assume stops the run, Assert reports.
package vn

import (
	"bufio"
	"context"
	"flag"
	"fmt"
	"os"
	"runtime"
	"runtime/debug"
	"strconv"
	"strings"
	"sync"
	"time"
)

var (
	vector   []int64
	pos      int
	registry = map[string]func(){}
	out      = bufio.NewWriter(os.Stdout)
)

type stop struct{ kind, msg string }

func Register(name string, f func()) { registry[name] = f }

func next() int64 {
	if pos >= len(vector) {
		panic(stop{"vector-exhausted", fmt.Sprint(pos)})
	}
	v := vector[pos]
	pos++
	return v
}

func Int(lo, hi int) int {
	v := int(next())
	if v < lo || v > hi {
		panic(stop{"assume", "Int out of range"})
	}
	return v
}

func Pick(n int) int { return Int(0, n-1) }
func Bool() bool     { return next() != 0 }
func Rune() rune     { return rune(next()) }

func StrOf(sel int, opts ...string) string { return opts[sel] }

func EnumOf(sel int, n int, mk func(int) any) any {
	if sel < 0 || sel >= n {
		panic(stop{"assume", "EnumOf selector out of range"})
	}
	return mk(sel)
}

func Assume(b bool) {
	if !b {
		panic(stop{"assume", ""})
	}
}

func Assert(id string, b bool) {
	if pre := os.Getenv("VN_ASSERT_PREFIX"); pre != "" && !strings.HasPrefix(id, pre) {
		return
	}
	if !b {
		fmt.Fprintf(out, "ASSERT-FAIL %s\n", id)
		panic(stop{"assertfail", id})
	}
	fmt.Fprintf(out, "REACH %s\n", id)
}

func Known(fid string, region bool) {}

func Observe(key string, v any) {
	switch v := v.(type) {
	case string:
		fmt.Fprintf(out, "OBS %s=%q\n", key, v)
	case bool:
		fmt.Fprintf(out, "OBS %s=%v\n", key, v)
	case int:
		fmt.Fprintf(out, "OBS %s=%d\n", key, v)
	case int32:
		fmt.Fprintf(out, "OBS %s=%d\n", key, v)
	case int64:
		fmt.Fprintf(out, "OBS %s=%d\n", key, v)
	case uint64:
		fmt.Fprintf(out, "OBS %s=%d\n", key, int64(v))
	default:
		fmt.Fprintf(out, "OBS %s=?\n", key)
	}
}

func Reach(id string) { fmt.Fprintf(out, "REACH %s\n", id) }

func And(a, b bool) bool     { return a && b }
func Or(a, b bool) bool      { return a || b }
func Not(a bool) bool        { return !a }
func Implies(a, b bool) bool { return !a || b }
func Ite(c bool, a, b int) int {
	if c {
		return a
	}
	return b
}
func IteS(c bool, a, b string) string {
	if c {
		return a
	}
	return b
}
func IteAny(c bool, a, b any) any {
	if c {
		return a
	}
	return b
}
func EqS(a, b string) bool { return a == b }
func B2I(b bool) int {
	if b {
		return 1
	}
	return 0
}

// Try runs f and reports whether it panicked.
func Try(f func()) (panicked bool) {
	defer func() {
		if r := recover(); r != nil {
			if s, ok := r.(stop); ok {
				panic(s)
			}
			panicked = true
		}
	}()
	f()
	return false
}

// Expect declares an outcome acceptable: 1 panic, 2 unwind (hang / stack overflow), 3 blocked, 4 exit.
func Expect(kind int) { fmt.Fprintf(out, "EXPECT %d\n", kind) }

// Drain lets spawned goroutines run until quiescence.
func Drain() { time.Sleep(30 * time.Millisecond) }

// Param returns a bound chosen by the check's tier (engine registry); natively from $VN_PARAMS.
func Param(name string, def int) int {
	for _, kv := range strings.Split(os.Getenv("VN_PARAMS"), ",") {
		if i := strings.IndexByte(kv, '='); i > 0 && kv[:i] == name {
			v, err := strconv.Atoi(kv[i+1:])
			if err == nil {
				return v
			}
		}
	}
	return def
}

func Symbolic() bool         { return false }
func Limits(depth, loop int) {}
func ReadCount() int         { return -1 }
func Concretize(v, lo, hi int) int {
	return v
}

// NativeMain replays the vectors listed in $VN_VECTORS (lines "id harness v1,v2,...").
func NativeMain() {
	path := os.Getenv("VN_VECTORS")
	if path == "" {
		return
	}
	// A stack overflow is fatal and cannot be recovered; keep the limit small so that runaway
	// recursion dies quickly and visibly.
	debug.SetMaxStack(256 << 20)
	data, err := os.ReadFile(path)
	if err != nil {
		fmt.Println("VN-ERROR", err)
		os.Exit(4)
	}
	start := 0
	if s := os.Getenv("VN_START"); s != "" {
		start, _ = strconv.Atoi(s)
	}
	tmo := 10 * time.Second
	if s := os.Getenv("VN_TIMEOUT_MS"); s != "" {
		ms, _ := strconv.Atoi(s)
		tmo = time.Duration(ms) * time.Millisecond
	}
	lines := strings.Split(strings.TrimSpace(string(data)), "\n")
	for i := start; i < len(lines); i++ {
		f := strings.Fields(lines[i])
		if len(f) < 2 {
			continue
		}
		id, name := f[0], f[1]
		vector = vector[:0]
		pos = 0
		if len(f) > 2 && f[2] != "" {
			for _, s := range strings.Split(f[2], ",") {
				v, _ := strconv.ParseInt(s, 10, 64)
				vector = append(vector, v)
			}
		}
		h := registry[name]
		fmt.Fprintf(out, "BEGIN %s %d\n", id, i)
		out.Flush()
		if h == nil {
			fmt.Fprintf(out, "END %s noharness\n", id)
			out.Flush()
			continue
		}
		done := make(chan string, 1)
		go func() {
			done <- runOne(h)
		}()
		select {
		case res := <-done:
			fmt.Fprintf(out, "END %s %s\n", id, res)
			out.Flush()
		case <-time.After(tmo):
			out.Flush()
			fmt.Printf("END %s hang\n", id)
			os.Exit(7) // the stuck goroutine cannot be killed; the driver restarts after this vector
		}
	}
	out.Flush()
}

func runOne(h func()) (res string) {
	defer func() {
		if r := recover(); r != nil {
			if s, ok := r.(stop); ok {
				res = s.kind + " " + s.msg
				return
			}
			res = "panic " + strings.ReplaceAll(fmt.Sprint(r), "\n", " ")
		}
	}()
	h()
	return "ok"
}

// ---- C18: driving the command line entry point ----
//
// Under gse these calls configure the C18-only stubs (symbolic flag cells, nondeterministic
// parse / typecheck outcomes, EXEC / EXIT events). Natively they prepare a real invocation:
// os.Args, a fresh flag set, generated program files, captured standard output.

var (
	cliDir    string
	cliStdout *os.File
	cliSaved  *os.File
)

func CliBegin() {
	cliDir, _ = os.MkdirTemp("", "vncli")
	os.Args = []string{"grits"}
	flag.CommandLine = flag.NewFlagSet("grits", flag.ExitOnError)
	cliSaved = os.Stdout
	cliStdout, _ = os.CreateTemp(cliDir, "stdout")
	os.Stdout = cliStdout
}

func CliFlagBool(name string, v bool) { os.Args = append(os.Args, fmt.Sprintf("--%s=%v", name, v)) }
func CliFlagInt(name string, v int)   { os.Args = append(os.Args, fmt.Sprintf("--%s=%d", name, v)) }

// CliArgs appends n file arguments; the first file parses iff parseOK and typechecks iff typeOK.
func CliArgs(n int, parseOK, typeOK bool) {
	for i := 0; i < n; i++ {
		text := "prc[a] : 1 = print zzhello; close self\n"
		if !parseOK {
			text = "prc[a : = \n"
		} else if !typeOK {
			text = "prc[a] : 1 * 1 = print zzhello; close self\n" // ill-typed, but harmless to run unchecked
		}
		f := fmt.Sprintf("%s/p%d.grits", cliDir, i)
		os.WriteFile(f, []byte(text), 0644)
		os.Args = append(os.Args, f)
	}
}

// CliTrailing appends one more token after the file arguments (a flag written after the file).
func CliTrailing(tok string) { os.Args = append(os.Args, tok) }

func cliOutput() string {
	if cliStdout == nil {
		return ""
	}
	os.Stdout = cliSaved
	cliStdout.Sync()
	b, _ := os.ReadFile(cliStdout.Name())
	os.RemoveAll(cliDir)
	return string(b)
}

// CliRan: the program was executed (natively: its label was printed).
func CliRan() bool { return strings.Contains(cliOutput(), "zzhello") }

// CliTypechecked: 1 yes, 0 no, -1 not observable (native).
func CliTypechecked() int { return -1 }

// OpaqueStr stands for an arbitrary identifier (a fresh string variable under gse).
func OpaqueStr(i int) string { return "x" + strconv.Itoa(i) }

// Tokens renders s as its Grits token sequence joined by single spaces (whitespace-insensitive
// comparison of printed terms).
func Tokens(s string) string {
	isWord := func(c byte) bool {
		return (c >= 'a' && c <= 'z') || (c >= 'A' && c <= 'Z') || (c >= '0' && c <= '9') || c == '_' || c == '\''
	}
	isSpace := func(c byte) bool { return c == ' ' || c == '\t' || c == '\n' || c == '\r' || c == '\v' }
	two := map[string]bool{"-*": true, "-o": true, "/\\": true, "\\/": true, "=>": true, "<-": true}
	var toks []string
	for i := 0; i < len(s); {
		switch {
		case isSpace(s[i]):
			i++
		case isWord(s[i]):
			j := i
			for j < len(s) && isWord(s[j]) {
				j++
			}
			toks = append(toks, s[i:j])
			i = j
		default:
			if i+1 < len(s) && two[s[i:i+2]] {
				toks = append(toks, s[i:i+2])
				i += 2
			} else {
				toks = append(toks, s[i:i+1])
				i++
			}
		}
	}
	return strings.Join(toks, " ")
}

// ---- C13: shared-memory discipline ----

// Watch marks a memory cell whose accesses are logged (gse only).
func Watch(p any) {}

// Par runs f and g as two threads: under gse one after the other with their accesses tagged
// by thread; natively as two goroutines (so that a -race build can confirm a finding).
func Par(f, g func()) {
	var wg sync.WaitGroup
	wg.Add(2)
	go func() { defer wg.Done(); f() }()
	go func() { defer wg.Done(); g() }()
	wg.Wait()
}

// RaceFree: no conflicting pair of accesses was logged (natively not observable: true).
func RaceFree() bool { return true }

// ---- schedule exploration (sched mode) ----
//
// Under gse, SchedStart switches the executor to schedule exploration: from then on every
// interleaving of the interpreted goroutines at their visible operations (channel send /
// receive / select / close) is a forked decision (with sleep-set reduction). Natively these
// calls do nothing: the Go scheduler picks one interleaving.

func SchedStart() {}
func SchedStop()  {}

// SchedQuiesce blocks until no other goroutine can make a step (natively: a pause).
func SchedQuiesce() { time.Sleep(100 * time.Millisecond) }

var (
	goroutineDump string
	baselineIDs   = map[string]bool{}
)

func dumpAll() string {
	buf := make([]byte, 4<<20)
	n := runtime.Stack(buf, true)
	return string(buf[:n])
}

func goroutineID(blk string) string {
	f := strings.Fields(blk)
	if len(f) >= 2 && f[0] == "goroutine" {
		return f[1]
	}
	return ""
}

// SnapshotBaseline: goroutines that exist now are ignored by later Live counts (leftovers of
// earlier runs in the same host process).
func SnapshotBaseline() {
	baselineIDs = map[string]bool{}
	for _, blk := range strings.Split(dumpAll(), "\n\n") {
		baselineIDs[goroutineID(blk)] = true
	}
}

// SnapshotGoroutines records what every goroutine is doing right now.
func SnapshotGoroutines() {
	goroutineDump = dumpAll()
}

// Live counts the goroutines of the last snapshot that have a function whose name contains
// substr on their stack and are blocked in op ("send", "recv", "select", "" = any).
func Live(substr, op string) int {
	want := map[string]string{"send": "chan send", "recv": "chan receive", "select": "select"}[op]
	n := 0
	for _, blk := range strings.Split(goroutineDump, "\n\n") {
		if !strings.Contains(blk, substr) || baselineIDs[goroutineID(blk)] {
			continue
		}
		head := blk
		if i := strings.IndexByte(blk, '\n'); i >= 0 {
			head = blk[:i]
		}
		if strings.Contains(head, "[running]") {
			continue
		}
		if want != "" && !strings.Contains(head, "["+want) {
			continue
		}
		n++
	}
	return n
}

// ChanSink: sends on ch complete immediately and are invisible to the schedule exploration
// (natively: nothing). ChanDoneOnly marks a context's Done channel.
func ChanSink(ch any)     {}
func ChanDoneOnly(ch any) {}

// RaceDetect switches the happens-before monitor on (gse only); Races is the number of
// conflicting unordered access pairs seen so far on this path.
func RaceDetect() {}
func Races() int  { return 0 }

// ModelCtx is the executor's model of a cancellable context (context.WithCancel is redirected
// to ModelWithCancel under gse; natively the real context package is used).
type ModelCtx struct {
	done   chan struct{}
	closed bool
}

func (c *ModelCtx) Deadline() (time.Time, bool) { return time.Time{}, false }
func (c *ModelCtx) Done() <-chan struct{}       { return c.done }
func (c *ModelCtx) Value(key any) any           { return nil }
func (c *ModelCtx) Err() error {
	if c.closed {
		return context.Canceled
	}
	return nil
}

func ModelWithCancel(parent context.Context) (context.Context, context.CancelFunc) {
	c := &ModelCtx{done: make(chan struct{})}
	ChanDoneOnly(c.done)
	return c, func() {
		if !c.closed {
			c.closed = true
			close(c.done)
		}
	}
}

// ---- captured standard output ----

var (
	capDir   string
	capFile  *os.File
	capSaved *os.File
)

// CaptureBegin starts recording what the code under test prints on standard output.
func CaptureBegin() {
	capDir, _ = os.MkdirTemp("", "vncap")
	capSaved = os.Stdout
	capFile, _ = os.CreateTemp(capDir, "stdout")
	os.Stdout = capFile
}

// CaptureEnd stops recording and returns the printed lines.
func CaptureEnd() []string {
	if capFile == nil {
		return nil
	}
	os.Stdout = capSaved
	capFile.Sync()
	b, _ := os.ReadFile(capFile.Name())
	capFile.Close()
	os.RemoveAll(capDir)
	capFile = nil
	var lines []string
	for _, l := range strings.Split(string(b), "\n") {
		if l != "" {
			lines = append(lines, l)
		}
	}
	return lines
}

// CountCalls starts counting the calls of functions whose name contains substr (gse only);
// Calls is the count so far (natively -1: not observable).
func CountCalls(substr string) {}
func Calls() int                { return -1 }

// Within runs f and reports whether it returned within d (natively; under gse f simply runs).
func Within(d time.Duration, f func()) bool {
	done := make(chan struct{})
	go func() { defer close(done); f() }()
	select {
	case <-done:
		return true
	case <-time.After(d):
		return false
	}
}
